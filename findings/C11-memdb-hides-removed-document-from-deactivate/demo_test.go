// Place in server/backend/database/memory (package memory_test). Fails before
// the fix "memory.FindDocInfosByIDs finds removed documents too":
// clients.Deactivate resolves the documents a client still has attached with
// FindDocInfosByIDs and gives up ("find documents for detachment, expected: 1,
// actual: 0") when one of them was removed by another client meanwhile; on the
// in-memory database such a client could never be deactivated. The MongoDB
// implementation returns removed documents. (The check S2 reproduces the
// whole flow through clients.Deactivate.)
package memory_test

import (
	"context"
	"testing"

	"github.com/stretchr/testify/require"

	"github.com/yorkie-team/yorkie/api/types"
	"github.com/yorkie-team/yorkie/pkg/document/change"
	"github.com/yorkie-team/yorkie/pkg/key"
	"github.com/yorkie-team/yorkie/server/backend/database/memory"
)

func TestC11FindDocInfosByIDsFindsARemovedDocument(t *testing.T) {
	ctx := context.Background()
	db, err := memory.New()
	require.NoError(t, err)
	projectID := types.ID("000000000000000000000001")
	a, err := db.ActivateClient(ctx, projectID, "a", nil)
	require.NoError(t, err)
	b, err := db.ActivateClient(ctx, projectID, "b", nil)
	require.NoError(t, err)
	docInfo, err := db.FindOrCreateDocInfo(ctx, a.RefKey(), key.Key("doc"), false)
	require.NoError(t, err)
	// B has the document attached ...
	require.NoError(t, b.AttachDocument(docInfo.ID, false, docInfo.Epoch))
	require.NoError(t, db.UpdateClientInfoAfterPushPull(ctx, b, docInfo))
	// ... A removes it
	_, _, err = db.CreateChangeInfos(ctx, docInfo.RefKey(), change.InitialCheckpoint, nil, true)
	require.NoError(t, err)

	// what clients.Deactivate(B) does first
	infos, err := db.FindDocInfosByIDs(ctx, projectID, []types.ID{docInfo.ID})
	require.NoError(t, err)
	require.Len(t, infos, 1, "the document B still has attached must be found for its detachment")
}
