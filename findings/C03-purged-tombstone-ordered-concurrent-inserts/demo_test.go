// Place in pkg/document (package document_test). Fails on the pinned tree
// (known finding, not repaired): garbage collection purges a text tombstone
// that every attached client has seen deleted -- which is all the minimum
// version vector promises -- while that tombstone is still what keeps two
// concurrent insertions in order: one anchored on it by a client that had not
// seen the deletion, one made right at the deletion point by the deleting
// client and not pushed yet. Replicas that purge before the held-back insert
// arrives order the two by ticket instead.
package document_test

import (
	"testing"

	"github.com/stretchr/testify/assert"

	"github.com/yorkie-team/yorkie/api/converter"
	"github.com/yorkie-team/yorkie/pkg/document"
	"github.com/yorkie-team/yorkie/pkg/document/change"
	"github.com/yorkie-team/yorkie/pkg/document/json"
	"github.com/yorkie-team/yorkie/pkg/document/presence"
	"github.com/yorkie-team/yorkie/pkg/document/time"
)

func TestC03PurgedTombstoneStillOrdersConcurrentInserts(t *testing.T) {
	wire := func(cs []*change.Change) []*change.Change {
		pb, err := converter.ToChangePack(change.NewPack("d", change.InitialCheckpoint, cs, nil, nil))
		assert.NoError(t, err)
		pack, err := converter.FromChangePack(pb)
		assert.NoError(t, err)
		return pack.Changes
	}
	up := func(d *document.Document, f func(r *json.Object)) {
		assert.NoError(t, d.Update(func(r *json.Object, _ *presence.Presence) error { f(r); return nil }))
	}
	a, b := document.New("d"), document.New("d")
	ida, _ := time.ActorIDFromHex("00000000000000000000000a")
	idb, _ := time.ActorIDFromHex("00000000000000000000000b") // B's tickets win ties
	a.SetActor(ida)
	b.SetActor(idb)

	up(a, func(r *json.Object) { r.SetNewText("t").Edit(0, 0, "abcd") })
	base := wire(a.CreateChangePack().Changes)
	assert.NoError(t, a.ApplyChangePack(change.NewPack("d", change.NewCheckpoint(1, 1), nil, nil, nil)))
	assert.NoError(t, b.ApplyChangePack(change.NewPack("d", change.NewCheckpoint(1, 0), base, nil, nil)))

	// A deletes everything and pushes
	up(a, func(r *json.Object) { r.GetText("t").Edit(0, 4, "") })
	del := wire(a.CreateChangePack().Changes)
	assert.NoError(t, a.ApplyChangePack(change.NewPack("d", change.NewCheckpoint(2, 2), nil, nil, nil)))
	// B appends without having seen the deletion
	up(b, func(r *json.Object) { r.GetText("t").Edit(4, 4, "U") })
	ins := wire(b.CreateChangePack().Changes)
	// A types into the emptied text and keeps the change for now
	up(a, func(r *json.Object) { r.GetText("t").Edit(0, 0, "L") })
	held := wire(a.CreateChangePack().Changes)

	// B synchronises: it receives the deletion; both attached clients have
	// now seen it, so the server's minimum vector lets B purge the tombstone
	vvA := a.VersionVector().DeepCopy() // A's last request vector (after its delete)
	assert.NoError(t, b.ApplyChangePack(change.NewPack("d", change.NewCheckpoint(3, 1), del, nil, nil)))
	minVV := time.MinVersionVector(vvA, b.VersionVector())
	b.GarbageCollect(minVV)
	assert.Equal(t, 0, b.GarbageLen(), "B purged the tombstone of abcd")

	// now the held-back insert reaches B, and B's insert reaches A
	assert.NoError(t, b.ApplyChangePack(change.NewPack("d", change.NewCheckpoint(4, 1), held, nil, nil)))
	assert.NoError(t, a.ApplyChangePack(change.NewPack("d", change.NewCheckpoint(4, 3), ins, nil, nil)))
	assert.Equal(t, a.Root().GetText("t").String(), b.Root().GetText("t").String(),
		"both replicas applied the same four changes")
}
