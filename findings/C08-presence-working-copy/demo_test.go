// Place in pkg/document (package document_test). Fails before the fix
// "Document.Update hands the updater a private copy of the actor's presence".
package document_test

import (
	"errors"
	"testing"

	"github.com/stretchr/testify/assert"

	"github.com/yorkie-team/yorkie/api/converter"
	"github.com/yorkie-team/yorkie/pkg/document"
	"github.com/yorkie-team/yorkie/pkg/document/json"
	"github.com/yorkie-team/yorkie/pkg/document/presence"
)

// The keys given at attach time are lost by the first Set: Initialize rebinds
// the proxy's map, the document's working copy keeps the old (empty) one and
// the next Update builds its Put on that.
func TestC08InitialPresenceSurvivesTheFirstSet(t *testing.T) {
	doc := document.New("d")
	doc.SetStatus(document.StatusAttached)
	assert.NoError(t, doc.Update(func(r *json.Object, p *presence.Presence) error {
		p.Initialize(presence.Data{"name": "two", "cursor": "0"})
		return nil
	}))
	assert.NoError(t, doc.Update(func(r *json.Object, p *presence.Presence) error {
		p.Set("cursor", "7")
		return nil
	}))
	assert.Equal(t, presence.Data{"name": "two", "cursor": "7"}, doc.MyPresence())
}

// A failing Update leaks its presence edits into a local change that is
// still waiting to be pushed: the change refers to the working copy's map,
// which the failing updater wrote into.
func TestC08FailedUpdateDoesNotAlterAnUnsentChange(t *testing.T) {
	doc := document.New("d")
	doc.SetStatus(document.StatusAttached)
	assert.NoError(t, doc.Update(func(r *json.Object, p *presence.Presence) error {
		p.Initialize(presence.Data{"color": "red"})
		return nil
	}))
	assert.NoError(t, doc.Update(func(r *json.Object, p *presence.Presence) error {
		p.Set("color", "blue")
		return nil
	}))
	rejected := errors.New("rejected")
	assert.ErrorIs(t, doc.Update(func(r *json.Object, p *presence.Presence) error {
		p.Set("cursor", "9")
		return rejected
	}), rejected)
	assert.Equal(t, presence.Data{"color": "blue"}, doc.MyPresence())

	// what a peer receives
	pb, err := converter.ToChangePack(doc.CreateChangePack())
	assert.NoError(t, err)
	pack, err := converter.FromChangePack(pb)
	assert.NoError(t, err)
	last := pack.Changes[len(pack.Changes)-1].PresenceChange()
	assert.Equal(t, presence.Data{"color": "blue"}, presence.Data(last.Presence))
}
