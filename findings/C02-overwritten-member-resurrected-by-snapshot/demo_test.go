// Place in pkg/document (package document_test). Fails before the fix
// "a member that loses the LWW race is tombstoned even when the winner is
// already removed": a deleted key comes back for every client that is fed a
// snapshot taken after garbage collection.
package document_test

import (
	"testing"

	"github.com/yorkie-team/yorkie/api/converter"
	"github.com/yorkie-team/yorkie/pkg/document"
	"github.com/yorkie-team/yorkie/pkg/document/change"
	"github.com/yorkie-team/yorkie/pkg/document/json"
	"github.com/yorkie-team/yorkie/pkg/document/presence"
	"github.com/yorkie-team/yorkie/pkg/document/time"
)

func TestC02OverwrittenMemberIsNotResurrectedBySnapshot(t *testing.T) {
	wire := func(cs []*change.Change) []*change.Change {
		pbs, err := converter.ToChanges(cs)
		if err != nil {
			t.Fatal(err)
		}
		out, err := converter.FromChanges(pbs)
		if err != nil {
			t.Fatal(err)
		}
		return out
	}
	up := func(d *document.Document, f func(r *json.Object)) {
		if err := d.Update(func(r *json.Object, _ *presence.Presence) error { f(r); return nil }); err != nil {
			t.Fatal(err)
		}
	}
	a, b := document.New("d"), document.New("d")
	ida, _ := time.ActorIDFromHex("00000000000000000000000a")
	idb, _ := time.ActorIDFromHex("00000000000000000000000b")
	a.SetActor(ida)
	b.SetActor(idb)

	// concurrent writes of one key: B's wins (same lamport, greater actor)
	up(a, func(r *json.Object) { r.SetInteger("k", 10) })
	up(b, func(r *json.Object) { r.SetInteger("k", 20) })
	fromA := wire(a.CreateChangePack().Changes)
	// B deletes the key before it sees A's write ...
	up(b, func(r *json.Object) { r.Delete("k") })
	// ... and then receives A's (losing) write
	if err := b.ApplyChangePack(change.NewPack("d", change.NewCheckpoint(1, 0), fromA, nil, nil)); err != nil {
		t.Fatal(err)
	}
	if got := b.Marshal(); got != `{}` {
		t.Fatalf("the key is deleted, got %s", got)
	}
	// everybody has seen everything: the tombstone of B's value is collected
	all := time.NewVersionVector()
	all.Set(ida, time.MaxLamport)
	all.Set(idb, time.MaxLamport)
	b.GarbageCollect(all)
	if got := b.Marshal(); got != `{}` {
		t.Fatalf("after collection the key is still deleted, got %s", got)
	}
	// what a client attaching now receives
	bytes, err := converter.SnapshotToBytes(b.RootObject(), nil)
	if err != nil {
		t.Fatal(err)
	}
	obj, _, err := converter.BytesToSnapshot(bytes)
	if err != nil {
		t.Fatal(err)
	}
	if got := obj.Marshal(); got != b.Marshal() {
		t.Fatalf("snapshot-fed replica shows %s, the document shows %s", got, b.Marshal())
	}
	if b.GarbageLen() != 0 {
		t.Fatalf("A's overwritten value is never collected: GarbageLen = %d", b.GarbageLen())
	}
}
