// Place in server/rpc (package rpc, internal test). Fails before the fix
// "memory.FindLatestChangeInfoByActor returns an empty ChangeInfo when the
// actor has no stored change": the server-driven detach that
// clients.Deactivate performs for every attached document failed with
// "change not found" on the in-memory database for a client that attached
// without ever pushing a change, so that client could never be deactivated.
package rpc

import (
	"context"
	"testing"

	"connectrpc.com/connect"
	"github.com/stretchr/testify/require"

	"github.com/yorkie-team/yorkie/api/converter"
	"github.com/yorkie-team/yorkie/api/types"
	api "github.com/yorkie-team/yorkie/api/yorkie/v1"
	"github.com/yorkie-team/yorkie/pkg/document"
	"github.com/yorkie-team/yorkie/pkg/key"
	"github.com/yorkie-team/yorkie/server/backend"
	"github.com/yorkie-team/yorkie/server/backend/database"
	"github.com/yorkie-team/yorkie/server/backend/housekeeping"
	"github.com/yorkie-team/yorkie/server/backend/membership"
	"github.com/yorkie-team/yorkie/server/clients"
	"github.com/yorkie-team/yorkie/server/documents"
	"github.com/yorkie-team/yorkie/server/packs"
	"github.com/yorkie-team/yorkie/server/profiling/prometheus"
)

func TestC11ServerDrivenDetachOfClientWithoutChanges(t *testing.T) {
	ctx := context.Background()
	met, err := prometheus.NewMetrics()
	require.NoError(t, err)
	be, err := backend.New(&backend.Config{
		AdminUser: "admin", AdminPassword: "admin", AdminTokenDuration: "10s", UseDefaultProject: true,
		SecretKey: "yorkie-secret", SnapshotCacheSize: 10, AuthWebhookCacheSize: 100, AuthWebhookCacheTTL: "10s",
		GatewayAddr: "localhost:11101", RPCAddr: "localhost:11101",
		ChannelSessionTTL: "5s", ChannelSessionCleanupInterval: "1s", ChannelSessionCountCacheTTL: "10s",
		ChannelSessionCountCacheSize: 100, ClusterRPCTimeout: "10s", ClusterClientTimeout: "30s",
		ClusterClientPoolSize: 1, MaxConcurrentClusterRPCs: 5000,
	}, nil, &membership.Config{LeaseDuration: "15s", RenewalInterval: "5s"},
		&housekeeping.Config{Interval: "500ms", CandidatesLimit: 10}, met, nil, nil)
	require.NoError(t, err)
	defer func() { _ = be.Shutdown() }()
	projectInfo, err := be.DB.FindProjectInfoByID(ctx, database.DefaultProjectID)
	require.NoError(t, err)
	project := projectInfo.ToProject()

	// activate, attach with an empty pack (nothing pushed)
	info, err := clients.Activate(ctx, be, project, "c11-client", nil)
	require.NoError(t, err)
	actor, err := info.ID.ToActorID()
	require.NoError(t, err)
	docKey := key.Key("c11-doc")
	doc := document.New(docKey)
	doc.SetActor(actor)
	docInfo, err := documents.FindOrCreateDocInfo(ctx, be, info, docKey, false)
	require.NoError(t, err)
	info, err = clients.AttachDocument(ctx, be, info, docInfo, false)
	require.NoError(t, err)
	_, err = packs.PushPull(ctx, be, project, info, docInfo.RefKey(), doc.CreateChangePack(),
		packs.PushPullOptions{Mode: types.SyncModePushPull, Status: document.StatusAttached})
	require.NoError(t, err)

	// what clients.Deactivate asks the document's node to do
	_, err = newClusterServer(be).DetachDocument(ctx, connect.NewRequest(&api.ClusterServiceDetachDocumentRequest{
		Project:     converter.ToProject(project),
		ClientId:    actor.String(),
		DocumentId:  docInfo.ID.String(),
		DocumentKey: docKey.String(),
	}))
	require.NoError(t, err, "server-driven detach of a client that never pushed a change")

	after, err := be.DB.FindClientInfoByRefKey(ctx, info.RefKey())
	require.NoError(t, err)
	require.Equal(t, database.DocumentDetached, after.Documents[docInfo.ID].Status)
}
