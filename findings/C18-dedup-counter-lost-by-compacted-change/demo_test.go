// Place in pkg/document (package document_test). Fails on the pinned tree:
// the change that compaction stores loses the dedup counter's HLL registers
// on the wire (api.JSONElementSimple has no field for them).
package document_test

import (
	"testing"

	"github.com/yorkie-team/yorkie/api/converter"
	"github.com/yorkie-team/yorkie/pkg/document"
	"github.com/yorkie-team/yorkie/pkg/document/change"
	"github.com/yorkie-team/yorkie/pkg/document/json"
	"github.com/yorkie-team/yorkie/pkg/document/presence"
	"github.com/yorkie-team/yorkie/pkg/document/yson"
)

func TestC18DedupCounterLostByCompactedChange(t *testing.T) {
	doc := document.New("d")
	_ = doc.Update(func(r *json.Object, _ *presence.Presence) error {
		r.SetNewDedupCounter("uv").Add("alice").Add("bob")
		return nil
	})
	// packs.Compact: export, import into a new document, store its changes
	root, err := yson.FromCRDT(doc.RootObject())
	if err != nil {
		t.Fatal(err)
	}
	newDoc := document.New("d")
	_ = newDoc.Update(func(r *json.Object, _ *presence.Presence) error {
		r.SetYSON(root)
		return nil
	})
	if newDoc.Marshal() != doc.Marshal() {
		t.Fatal("rebuild-compare fails")
	}
	// the stored change goes through the wire encoding
	pbs, err := converter.ToChanges(newDoc.CreateChangePack().Changes)
	if err != nil {
		t.Fatal(err)
	}
	cs, err := converter.FromChanges(pbs)
	if err != nil {
		t.Fatal(err)
	}
	// a client attaching after compaction
	c := document.New("d")
	if err := c.ApplyChangePack(change.NewPack("d", change.NewCheckpoint(int64(len(cs)), 0), cs, nil, nil)); err != nil {
		t.Fatal(err)
	}
	if c.Marshal() != doc.Marshal() {
		t.Fatalf("after compaction a new client sees %s, before: %s", c.Marshal(), doc.Marshal())
	}
}
