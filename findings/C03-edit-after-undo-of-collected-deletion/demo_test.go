// Place in pkg/document (package document_test). Fails before the fix
// "a text fragment recreated by undo rejoins its insertion's split chain":
// delete the middle of a text, let garbage collection purge the tombstone,
// undo the deletion, edit again -- the edit panics with "offset should be
// less than or equal to length".
package document_test

import (
	"testing"

	"github.com/stretchr/testify/assert"

	"github.com/yorkie-team/yorkie/pkg/document"
	"github.com/yorkie-team/yorkie/pkg/document/json"
	"github.com/yorkie-team/yorkie/pkg/document/presence"
	"github.com/yorkie-team/yorkie/pkg/document/time"
)

func TestC03EditAfterUndoOfCollectedDeletion(t *testing.T) {
	d := document.New("d")
	id, _ := time.ActorIDFromHex("00000000000000000000000a")
	d.SetActor(id)
	assert.NoError(t, d.Update(func(r *json.Object, _ *presence.Presence) error {
		r.SetNewText("txt").Edit(0, 0, "abcd")
		return nil
	}))
	assert.NoError(t, d.ClearHistory())
	assert.NoError(t, d.Update(func(r *json.Object, _ *presence.Presence) error {
		r.GetText("txt").Edit(1, 3, "")
		return nil
	}))
	// the only attached client has seen its own deletion: the tombstone goes
	vv := time.NewVersionVector()
	vv.Set(id, time.MaxLamport)
	assert.Equal(t, 1, d.GarbageCollect(vv))

	assert.NoError(t, d.Undo())
	assert.Equal(t, "abcd", d.Root().GetText("txt").String())

	assert.NotPanics(t, func() {
		assert.NoError(t, d.Update(func(r *json.Object, _ *presence.Presence) error {
			r.GetText("txt").Edit(1, 3, "")
			return nil
		}))
	})
	assert.Equal(t, "ad", d.Root().GetText("txt").String())
}
