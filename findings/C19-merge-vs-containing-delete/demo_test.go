package document_test

import (
	"fmt"
	"testing"

	"github.com/yorkie-team/yorkie/pkg/document"
	"github.com/yorkie-team/yorkie/pkg/document/change"
	"github.com/yorkie-team/yorkie/pkg/document/json"
	"github.com/yorkie-team/yorkie/pkg/document/presence"
	"github.com/yorkie-team/yorkie/pkg/document/time"
)

func TestC19Demo(t *testing.T) {
	a := document.New("d")
	b := document.New("d")
	ida, _ := time.ActorIDFromHex("000000000000000000000001")
	idb, _ := time.ActorIDFromHex("000000000000000000000002")
	a.SetActor(ida)
	b.SetActor(idb)
	p := func(s string) json.TreeNode {
		return json.TreeNode{Type: "p", Children: []json.TreeNode{{Type: "text", Value: s}}}
	}
	_ = a.Update(func(r *json.Object, _ *presence.Presence) error {
		r.SetNewTree("t", json.TreeNode{Type: "root", Children: []json.TreeNode{p("abc"), p("def"), p("ghi")}})
		return nil
	})
	pk := a.CreateChangePack()
	if err := b.ApplyChangePack(change.NewPack("d", change.InitialCheckpoint.NextServerSeq(1), pk.Changes, nil, nil)); err != nil {
		t.Fatal(err)
	}
	_ = a.ApplyChangePack(change.NewPack("d", change.NewCheckpoint(1, 1), nil, nil, nil))
	_ = a.Update(func(r *json.Object, _ *presence.Presence) error { r.GetTree("t").Edit(4, 6, nil, 0); return nil })
	_ = b.Update(func(r *json.Object, _ *presence.Presence) error { r.GetTree("t").Edit(5, 15, nil, 0); return nil })
	pa, pb := a.CreateChangePack(), b.CreateChangePack()
	if err := b.ApplyChangePack(change.NewPack("d", change.NewCheckpoint(3, 1), pa.Changes, nil, nil)); err != nil {
		t.Fatal(err)
	}
	if err := a.ApplyChangePack(change.NewPack("d", change.NewCheckpoint(3, 2), pb.Changes, nil, nil)); err != nil {
		t.Fatal(err)
	}
	fmt.Println("A:", a.Root().GetTree("t").ToXML())
	fmt.Println("B:", b.Root().GetTree("t").ToXML())
	if a.Marshal() != b.Marshal() {
		t.Fatal("diverged")
	}
}
