// Place in pkg/document (package document_test). Fails before commit 569027ef:
// a local change made while a sync is in flight has its version vector
// rewritten by the response of that sync.
package document_test

import (
	"testing"

	"github.com/yorkie-team/yorkie/api/converter"
	"github.com/yorkie-team/yorkie/pkg/document"
	"github.com/yorkie-team/yorkie/pkg/document/change"
	"github.com/yorkie-team/yorkie/pkg/document/json"
	"github.com/yorkie-team/yorkie/pkg/document/presence"
	"github.com/yorkie-team/yorkie/pkg/document/time"
)

func TestC06PendingChangeKeepsItsClock(t *testing.T) {
	a, b := document.New("d"), document.New("d")
	ida, _ := time.ActorIDFromHex("00000000000000000000000a")
	idb, _ := time.ActorIDFromHex("00000000000000000000000b")
	a.SetActor(ida)
	b.SetActor(idb)

	// B's change is on the server
	_ = b.Update(func(r *json.Object, _ *presence.Presence) error { r.SetString("b", "1"); return nil })
	pbs, _ := converter.ToChanges(b.CreateChangePack().Changes)
	fromB, _ := converter.FromChanges(pbs)

	// A sends a sync request (nothing to push) ...
	_ = a.CreateChangePack()
	// ... edits while the request is in flight ...
	_ = a.Update(func(r *json.Object, _ *presence.Presence) error { r.SetString("a", "1"); return nil })
	pending := a.CreateChangePack().Changes[0].ID()
	lamport, own := pending.Lamport(), pending.VersionVector().VersionOf(ida)
	if lamport != own {
		t.Fatalf("before: lamport %d, own entry %d", lamport, own)
	}
	// ... and applies the response, which carries B's change
	if err := a.ApplyChangePack(change.NewPack("d", change.NewCheckpoint(1, 0), fromB, nil, nil)); err != nil {
		t.Fatal(err)
	}

	pending = a.CreateChangePack().Changes[0].ID()
	if got := pending.VersionVector().VersionOf(ida); got != pending.Lamport() {
		t.Fatalf("the pending change's own vector entry is %d, its lamport is %d", got, pending.Lamport())
	}
	if got := pending.VersionVector().VersionOf(idb); got != 0 {
		t.Fatalf("the pending change claims to have seen B's change (vector entry %d) although it was made without it", got)
	}
}
