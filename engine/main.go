// gosmt: bounded symbolic execution of Go (go/ssa) with an SMT solver.
package main

import (
	"encoding/json"
	"flag"
	"fmt"
	"os"
	"path/filepath"
	"regexp"
	"runtime/debug"
	"runtime/pprof"
	"sort"
	"strings"

	"gosmt/symx"
)

const modPath = "github.com/yorkie-team/yorkie"

type harnessFile struct {
	Path   string
	PkgDir string // relative to repo
	Src    []byte
}

func readHarness(path string) (*harnessFile, error) {
	src, err := os.ReadFile(path)
	if err != nil {
		return nil, err
	}
	re := regexp.MustCompile(`(?m)^//verif:pkg\s+(\S+)`)
	m := re.FindSubmatch(src)
	if m == nil {
		return nil, fmt.Errorf("%s: missing //verif:pkg directive", path)
	}
	return &harnessFile{Path: path, PkgDir: string(m[1]), Src: src}, nil
}

// BuildOverlay maps harness sources into virtual files of the repository.
func BuildOverlay(repo, harnessDir string, files []*harnessFile) (map[string][]byte, []string, error) {
	ov := map[string][]byte{}
	zz, err := os.ReadFile(filepath.Join(harnessDir, "zzvsym", "zzvsym.go"))
	if err != nil {
		return nil, nil, err
	}
	ov[filepath.Join(repo, "internal", "zzvsym", "zzvsym.go")] = zz
	pkgs := map[string]bool{}
	for _, h := range files {
		base := strings.TrimSuffix(filepath.Base(h.Path), ".go")
		ov[filepath.Join(repo, h.PkgDir, "zz_verif_"+base+".go")] = h.Src
		pkgs[modPath+"/"+h.PkgDir] = true
	}
	var pats []string
	for p := range pkgs {
		pats = append(pats, p)
	}
	sort.Strings(pats)
	return ov, pats, nil
}

type Output struct {
	Results []*symx.Result `json:"results"`
	LoadSec float64        `json:"load_s"`
	Tier    string         `json:"tier"`
	Error   string         `json:"error,omitempty"`
}

func main() {
	if len(os.Args) < 2 {
		fmt.Fprintln(os.Stderr, "usage: gosmt run|list ...")
		os.Exit(2)
	}
	switch os.Args[1] {
	case "run":
		os.Exit(cmdRun(os.Args[2:]))
	default:
		fmt.Fprintln(os.Stderr, "unknown command", os.Args[1])
		os.Exit(2)
	}
}

func cmdRun(args []string) int {
	fs := flag.NewFlagSet("run", flag.ExitOnError)
	repo := fs.String("repo", "/repo", "repository root")
	hdir := fs.String("hdir", "/verif/harness", "harness directory")
	hfiles := fs.String("harness", "", "comma separated harness files (relative to hdir)")
	fn := fs.String("func", "", "regexp selecting harness functions (default: all Verif* in the files)")
	tier := fs.String("tier", "quick", "quick|thorough")
	out := fs.String("out", "", "result JSON path (default stdout)")
	cfg := symx.DefaultConfig()
	fs.IntVar(&cfg.Workers, "workers", 8, "parallel workers")
	fs.IntVar(&cfg.Unwind, "unwind", cfg.Unwind, "loop unwinding bound")
	fs.IntVar(&cfg.Depth, "depth", cfg.Depth, "call depth bound")
	fs.IntVar(&cfg.KConc, "kconc", cfg.KConc, "concretisation bound")
	fs.IntVar(&cfg.MaxPaths, "maxpaths", cfg.MaxPaths, "path budget")
	fs.IntVar(&cfg.MaxSteps, "maxsteps", cfg.MaxSteps, "SSA instruction budget per path")
	fs.IntVar(&cfg.TimeoutMs, "timeout", cfg.TimeoutMs, "solver timeout per query (ms)")
	fs.IntVar(&cfg.Validate, "validate", cfg.Validate, "path models to emit for native validation")
	fs.IntVar(&cfg.StopOnViol, "stopviol", cfg.StopOnViol, "stop after this many distinct violations")
	fs.BoolVar(&cfg.CrossCheck, "cross", false, "cross-check assertion queries with other solvers")
	fs.BoolVar(&cfg.DebugAborts, "debug", false, "print aborted paths")
	fs.IntVar(&cfg.MaxSeconds, "maxtime", 0, "wall-clock budget in seconds per harness (0 = none)")
	fs.BoolVar(&cfg.Progress, "progress", false, "print progress lines")
	solver := fs.String("solver", "z3", "z3|z3-new|cvc5")
	seed := fs.Int64("seed", 0, "seed")
	gogc := fs.Int("gogc", 600, "GC percent of the engine process")
	known := fs.String("known", "", "known findings: harness::assert::regexp separated by ;;")
	cpuprof := fs.String("cpuprofile", "", "write CPU profile")
	fs.Parse(args)
	if *cpuprof != "" {
		f, _ := os.Create(*cpuprof)
		pprof.StartCPUProfile(f)
		defer pprof.StopCPUProfile()
	}
	debug.SetGCPercent(*gogc)
	for _, k := range strings.Split(*known, ";;") {
		parts := strings.SplitN(k, "::", 3)
		if len(parts) != 3 {
			continue
		}
		kp := symx.KnownPattern{Harness: parts[0], Assert: parts[1]}
		if parts[2] != "" {
			kp.Re = regexp.MustCompile(parts[2])
		}
		cfg.Known = append(cfg.Known, kp)
	}
	cfg.Solver = symx.SolverKind(*solver)
	cfg.Seed = *seed
	if *tier == "thorough" {
		cfg.Tier = 1
	}
	o := &Output{Tier: *tier}
	emit := func(code int) int {
		data, _ := json.MarshalIndent(o, "", " ")
		if *out == "" {
			os.Stdout.Write(data)
		} else {
			os.WriteFile(*out, data, 0o644)
		}
		return code
	}
	var files []*harnessFile
	for _, f := range strings.Split(*hfiles, ",") {
		if f == "" {
			continue
		}
		h, err := readHarness(filepath.Join(*hdir, f))
		if err != nil {
			o.Error = err.Error()
			return emit(3)
		}
		files = append(files, h)
	}
	ov, pats, err := BuildOverlay(*repo, *hdir, files)
	if err != nil {
		o.Error = err.Error()
		return emit(3)
	}
	prog, err := symx.Load(*repo, ov, "verif", pats)
	if err != nil {
		o.Error = "load: " + err.Error()
		return emit(3)
	}
	o.LoadSec = prog.LoadSec
	var re *regexp.Regexp
	if *fn != "" {
		re = regexp.MustCompile(*fn)
	}
	hs := prog.ListHarnesses()
	sort.Slice(hs, func(i, j int) bool { return hs[i].Name() < hs[j].Name() })
	for _, h := range hs {
		if re != nil && !re.MatchString(h.Name()) {
			continue
		}
		res := prog.Explore(h, cfg)
		o.Results = append(o.Results, res)
		fmt.Fprintf(os.Stderr, "%s: paths=%d completed=%d pruned=%d viol=%d asserts(sym=%d conc=%d) queries(feas=%d assert=%d) solver=%.1fs wall=%.1fs exhausted=%v inconclusive=%v\n",
			res.Harness, res.Paths, res.PathsCompleted, res.Pruned, len(res.Violations), res.AssertsSymbolic, res.AssertsConcrete, res.QFeas, res.QAssert, res.SolverSec, res.WallSec, res.Exhausted, res.Inconclusive)
	}
	if len(o.Results) == 0 {
		o.Error = "no harness functions found"
		return emit(3)
	}
	return emit(0)
}
