// Copyright 2013 The Go Authors. All rights reserved.
// Use of this source code is governed by a BSD-style
// license that can be found in the LICENSE file.

// Package ssa/interp defines an interpreter for the SSA
// representation of Go programs.
//
// This interpreter is provided as an adjunct for testing the SSA
// construction algorithm.  Its purpose is to provide a minimal
// metacircular implementation of the dynamic semantics of each SSA
// instruction.  It is not, and will never be, a production-quality Go
// interpreter.
//
// The following is a partial list of Go features that are currently
// unsupported or incomplete in the interpreter.
//
// * Unsafe operations, including all uses of unsafe.Pointer, are
// impossible to support given the "boxed" value representation we
// have chosen.
//
// * The reflect package is only partially implemented.
//
// * The "testing" package is no longer supported because it
// depends on low-level details that change too often.
//
// * "sync/atomic" operations are not atomic due to the "boxed" value
// representation: it is not possible to read, modify and write an
// interface value atomically. As a consequence, Mutexes are currently
// broken.
//
// * recover is only partially implemented.  Also, the interpreter
// makes no attempt to distinguish target panics from interpreter
// crashes.
//
// * the sizes of the int, uint and uintptr types in the target
// program are assumed to be the same as those of the interpreter
// itself.
//
// * all values occupy space, even those of types defined by the spec
// to have zero size, e.g. struct{}.  This can cause asymptotic
// performance degradation.
//
// * os.Exit is implemented using panic, causing deferred functions to
// run.
package symx

import (
	"fmt"
	"go/token"
	"go/types"
	"log"
	"runtime"
	"runtime/debug"
	"slices"
	"strings"

	"golang.org/x/tools/go/ssa"
)

type continuation int

const (
	kNext continuation = iota
	kReturn
	kJump
)

// Mode is a bitmask of options affecting the interpreter.
type Mode uint

const (
	DisableRecover Mode = 1 << iota // Disable recover() in target programs; show interpreter crash instead.
	EnableTracing                   // Print a trace of all instructions as they are interpreted.
)

type methodSet map[string]*ssa.Function

// State shared between all interpreted goroutines.
type interpreter struct {
	osArgs             []value                // the value of os.Args
	prog               *ssa.Program           // the SSA program
	globals            map[*ssa.Global]*value // addresses of global variables (immutable)
	mode               Mode                   // interpreter options
	reflectPackage     *ssa.Package           // the fake reflect package
	errorMethods       methodSet              // the method set of reflect.error, which implements the error interface.
	rtypeMethods       methodSet              // the method set of rtype, which implements the reflect.Type interface.
	runtimeErrorString types.Type             // the runtime.errorString type (iff "runtime" is present)
	sizes              types.Sizes            // the effective type-sizing function
	goroutines         int32                  // atomically updated
	cx                 *pathCtx               // symbolic path context (one per worker)
	initDone           map[*ssa.Package]bool
}

type deferred struct {
	fn    value
	args  []value
	instr *ssa.Defer
	tail  *deferred
}

type frame struct {
	i                *interpreter
	caller           *frame
	fn               *ssa.Function
	block, prevBlock *ssa.BasicBlock
	env              []value             // dynamic values of SSA variables, indexed by fnInfo.num
	info             *fnInfo
	locals           []value
	defers           *deferred
	result           value
	panicking        bool
	panic            any
	phitemps         []value // temporaries for parallel phi assignment
	visits           []int32 // per-block back-edge counts (unwinding bound)
	visitTrace       []int32 // trace length+1 at the last counted back-edge per block
	depthIdx         int
}

func (fr *frame) set(key ssa.Value, v value) {
	fr.env[fr.info.num[key]] = v
}

func (fr *frame) get(key ssa.Value) value {
	switch key := key.(type) {
	case nil:
		// Hack; simplifies handling of optional attributes
		// such as ssa.Slice.{Low,High}.
		return nil
	case *ssa.Function, *ssa.Builtin:
		return key
	case *ssa.Const:
		return constValue(key)
	case *ssa.Global:
		if r, ok := fr.i.globals[key]; ok {
			return r
		}
		// global storage is allocated on first use
		cell := zero(mustDeref(key.Type()))
		fr.i.globals[key] = &cell
		return &cell
	}
	if idx, ok := fr.info.num[key]; ok {
		return fr.env[idx]
	}
	panic(fmt.Sprintf("get: no value for %T: %v", key, key.Name()))
}

// runDefer runs a deferred call d.
// It always returns normally, but may set or clear fr.panic.
func (fr *frame) runDefer(d *deferred) {
	var ok bool
	defer func() {
		if !ok {
			// Deferred call created a new state of panic.
			r := recover()
			if pa, isAbort := r.(pathAbort); isAbort {
				panic(pa)
			}
			fr.panicking = true
			fr.panic = r
		}
	}()
	call(fr.i, fr, d.instr.Pos(), d.fn, d.args)
	ok = true
}

// runDefers executes fr's deferred function calls in LIFO order.
//
// On entry, fr.panicking indicates a state of panic; if
// true, fr.panic contains the panic value.
//
// On completion, if a deferred call started a panic, or if no
// deferred call recovered from a previous state of panic, then
// runDefers itself panics after the last deferred call has run.
//
// If there was no initial state of panic, or it was recovered from,
// runDefers returns normally.
func (fr *frame) runDefers() {
	for d := fr.defers; d != nil; d = d.tail {
		fr.runDefer(d)
	}
	fr.defers = nil
	if fr.panicking {
		panic(fr.panic) // new panic, or still panicking
	}
}

// lookupMethod returns the method set for type typ, which may be one
// of the interpreter's fake types.
func lookupMethod(i *interpreter, typ types.Type, meth *types.Func) *ssa.Function {
	switch typ {
	case rtypeType:
		return i.rtypeMethods[meth.Id()]
	case errorType:
		return i.errorMethods[meth.Id()]
	}
	return i.prog.LookupMethod(typ, meth.Pkg(), meth.Name())
}

// visitInstr interprets a single ssa.Instruction within the activation
// record frame.  It returns a continuation value indicating where to
// read the next instruction from.
func visitInstr(fr *frame, instr ssa.Instruction) continuation {
	switch instr := instr.(type) {
	case *ssa.DebugRef:
		// no-op

	case *ssa.UnOp:
		fr.set(instr, unop(fr.i.cx, instr, fr.get(instr.X)))

	case *ssa.BinOp:
		fr.set(instr, binop(fr.i.cx, instr.Op, instr.X.Type(), fr.get(instr.X), fr.get(instr.Y)))

	case *ssa.Call:
		fn, args := prepareCall(fr, &instr.Call)
		fr.set(instr, call(fr.i, fr, instr.Pos(), fn, args))

	case *ssa.ChangeInterface:
		fr.set(instr, fr.get(instr.X))

	case *ssa.ChangeType:
		fr.set(instr, fr.get(instr.X)) // (can't fail)

	case *ssa.Convert:
		fr.set(instr, conv(fr.i.cx, instr.Type(), instr.X.Type(), fr.get(instr.X)))

	case *ssa.SliceToArrayPointer:
		fr.set(instr, sliceToArrayPointer(instr.Type(), instr.X.Type(), fr.get(instr.X)))

	case *ssa.MakeInterface:
		fr.set(instr, iface{t: instr.X.Type(), v: fr.get(instr.X)})

	case *ssa.Extract:
		fr.set(instr, fr.get(instr.Tuple).(tuple)[instr.Index])

	case *ssa.Slice:
		fr.i.cx.curFn = fr.fn.String()
		fr.set(instr, slice(fr.i.cx, fr.get(instr.X), fr.get(instr.Low), fr.get(instr.High), fr.get(instr.Max)))

	case *ssa.Return:
		switch len(instr.Results) {
		case 0:
		case 1:
			fr.result = fr.get(instr.Results[0])
		default:
			var res []value
			for _, r := range instr.Results {
				res = append(res, fr.get(r))
			}
			fr.result = tuple(res)
		}
		fr.block = nil
		return kReturn

	case *ssa.RunDefers:
		fr.runDefers()

	case *ssa.Panic:
		panic(targetPanic{fr.get(instr.X)})

	case *ssa.Send:
		select {
		case fr.get(instr.Chan).(chan value) <- fr.get(instr.X):
		default:
			fr.i.cx.abort("unsupported", "channel send would block")
		}

	case *ssa.Store:
		store(mustDeref(instr.Addr.Type()), fr.get(instr.Addr).(*value), fr.get(instr.Val))

	case *ssa.If:
		succ := 1
		if fr.i.cx.truth(fr.get(instr.Cond)) {
			succ = 0
		}
		fr.prevBlock, fr.block = fr.block, fr.block.Succs[succ]
		return kJump

	case *ssa.Jump:
		fr.prevBlock, fr.block = fr.block, fr.block.Succs[0]
		return kJump

	case *ssa.Defer:
		fn, args := prepareCall(fr, &instr.Call)
		defers := &fr.defers
		if into := fr.get(instr.DeferStack); into != nil {
			defers = into.(**deferred)
		}
		*defers = &deferred{
			fn:    fn,
			args:  args,
			instr: instr,
			tail:  *defers,
		}

	case *ssa.Go:
		fr.i.cx.abort("unsupported", "go statement in "+fr.fn.String())

	case *ssa.MakeChan:
		n := asInt64(fr.get(instr.Size))
		if n < 64 {
			n = 64 // single-goroutine execution: never block on a buffered event channel
		}
		fr.set(instr, make(chan value, n))

	case *ssa.Alloc:
		var addr *value
		if instr.Heap {
			// new
			addr = new(value)
			fr.set(instr, addr)
		} else {
			// local
			addr = fr.env[fr.info.num[instr]].(*value)
		}
		*addr = zero(mustDeref(instr.Type()))

	case *ssa.MakeSlice:
		capN := fr.i.cx.conc(fr.get(instr.Cap))
		lenN := fr.i.cx.conc(fr.get(instr.Len))
		if lenN < 0 || capN < lenN {
			panic("runtime error: makeslice: len out of range")
		}
		if capN > 1<<24 {
			fr.i.cx.abort("unsupported", "makeslice larger than 2^24")
		}
		slice := make([]value, capN)
		tElt := instr.Type().Underlying().(*types.Slice).Elem()
		for i := range slice {
			slice[i] = zero(tElt)
		}
		fr.set(instr, slice[:lenN])

	case *ssa.MakeMap:
		fr.set(instr, makeMap(instr.Type().Underlying().(*types.Map).Key(), 0))

	case *ssa.Range:
		fr.set(instr, rangeIter(fr.i.cx, fr.get(instr.X)))

	case *ssa.Next:
		fr.set(instr, fr.get(instr.Iter).(iter).next())

	case *ssa.FieldAddr:
		fr.set(instr, &(*fr.get(instr.X).(*value)).(structure)[instr.Field])

	case *ssa.Field:
		fr.set(instr, fr.get(instr.X).(structure)[instr.Field])

	case *ssa.IndexAddr:
		x := fr.get(instr.X)
		idx := fr.get(instr.Index)
		switch x := x.(type) {
		case []value:
			fr.set(instr, &x[fr.i.cx.conc(idx)])
		case *value: // *array
			fr.set(instr, &(*x).(array)[fr.i.cx.conc(idx)])
		default:
			panic(fmt.Sprintf("unexpected x type in IndexAddr: %T", x))
		}

	case *ssa.Index:
		x := fr.get(instr.X)
		idx := fr.get(instr.Index)

		switch x := x.(type) {
		case array:
			fr.set(instr, x[fr.i.cx.conc(idx)])
		case string:
			fr.set(instr, x[fr.i.cx.conc(idx)])
		case *symstr:
			fr.i.cx.unsupported("indexing a symbolic string")
		default:
			panic(fmt.Sprintf("unexpected x type in Index: %T", x))
		}

	case *ssa.Lookup:
		fr.set(instr, lookup(fr.i.cx, instr, fr.get(instr.X), fr.get(instr.Index)))

	case *ssa.MapUpdate:
		m := fr.get(instr.Map)
		key := fr.get(instr.Key)
		v := fr.get(instr.Value)
		switch m := m.(type) {
		case *omap:
			if m == nil {
				panic("assignment to entry in nil map")
			}
			m.insert(fr.i.cx, key, v)
		default:
			panic(fmt.Sprintf("illegal map type: %T", m))
		}

	case *ssa.TypeAssert:
		fr.set(instr, typeAssert(instr, fr.get(instr.X).(iface)))

	case *ssa.MakeClosure:
		var bindings []value
		for _, binding := range instr.Bindings {
			bindings = append(bindings, fr.get(binding))
		}
		fr.set(instr, &closure{instr.Fn.(*ssa.Function), bindings})

	case *ssa.Phi:
		log.Fatal("unreachable") // phis are processed at block entry

	case *ssa.Select:
		fr.set(instr, doSelect(fr, instr))

	default:
		panic(fmt.Sprintf("unexpected instruction: %T", instr))
	}

	// if val, ok := instr.(ssa.Value); ok {
	// 	fmt.Println(toString(fr.env[val])) // debugging
	// }

	return kNext
}

// prepareCall determines the function value and argument values for a
// function call in a Call, Go or Defer instruction, performing
// interface method lookup if needed.
func prepareCall(fr *frame, call *ssa.CallCommon) (fn value, args []value) {
	v := fr.get(call.Value)
	if call.Method == nil {
		// Function call.
		fn = v
	} else {
		// Interface method invocation.
		recv := v.(iface)
		if recv.t == nil {
			panic("method invoked on nil interface")
		}
		if f := lookupMethod(fr.i, recv.t, call.Method); f == nil {
			// Unreachable in well-typed programs.
			panic(fmt.Sprintf("method set for dynamic type %v does not contain %s", recv.t, call.Method))
		} else {
			fn = f
		}
		args = append(args, recv.v)
	}
	for _, arg := range call.Args {
		args = append(args, fr.get(arg))
	}
	return
}

// call interprets a call to a function (function, builtin or closure)
// fn with arguments args, returning its result.
// callpos is the position of the callsite.
func call(i *interpreter, caller *frame, callpos token.Pos, fn value, args []value) value {
	switch fn := fn.(type) {
	case *ssa.Function:
		if fn == nil {
			panic("call of nil function") // nil of func type
		}
		return callSSA(i, caller, callpos, fn, args, nil)
	case *closure:
		return callSSA(i, caller, callpos, fn.Fn, args, fn.Env)
	case *ssa.Builtin:
		return callBuiltin(caller, fn, args)
	}
	panic(fmt.Sprintf("cannot call %T", fn))
}

func loc(fset *token.FileSet, pos token.Pos) string {
	if pos == token.NoPos {
		return ""
	}
	return " at " + fset.Position(pos).String()
}

// callSSA interprets a call to function fn with arguments args,
// and lexical environment env, returning its result.
// callpos is the position of the callsite.
func callSSA(i *interpreter, caller *frame, callpos token.Pos, fn *ssa.Function, args []value, env []value) value {
	fr := &frame{
		i:      i,
		caller: caller, // for panic/recover
		fn:     fn,
	}
	cx := i.cx
	info := cx.fnInfo(fn)
	if info.ext != nil {
		if !info.seen {
			info.seen = true
			cx.intr[info.name] = true
		}
		return info.ext(fr, args)
	}
	if info.skipInit {
		return nil
	}
	if !info.interp || fn.Blocks == nil {
		if cx.lenient {
			return zeroResult(fn)
		}
		if !info.interp {
			cx.abort("missing-intrinsic", info.name)
		}
		cx.abort("missing-intrinsic", info.name+" (no body)")
	}

	// generic function body?
	if fn.TypeParams().Len() > 0 && len(fn.TypeArgs()) == 0 {
		panic("interp requires ssa.BuilderMode to include InstantiateGenerics to execute generics")
	}
	if !info.seen {
		info.seen = true
		cx.funcs[info.name] = true
	}
	cx.depth++
	fr.depthIdx = len(cx.stack)
	cx.stack = append(cx.stack, fr)
	if cx.depth > cx.cfg.Depth {
		cx.abort("unwind-exceeded", "call depth in "+fn.String())
	}

	fr.info = info
	fr.env = make([]value, info.nvals)
	fr.block = fn.Blocks[0]
	fr.locals = make([]value, len(fn.Locals))
	for i, l := range fn.Locals {
		fr.locals[i] = zero(mustDeref(l.Type()))
		fr.env[info.num[l]] = &fr.locals[i]
	}
	for i, p := range fn.Params {
		fr.env[info.num[p]] = args[i]
	}
	for i, fv := range fn.FreeVars {
		fr.env[info.num[fv]] = env[i]
	}
	for fr.block != nil {
		runFrame(fr)
	}
	// Destroy the locals to avoid accidental use after return.
	for i := range fn.Locals {
		fr.locals[i] = bad{}
	}
	cx.depth = fr.depthIdx
	cx.stack = cx.stack[:fr.depthIdx]
	return fr.result
}

// runFrame executes SSA instructions starting at fr.block and
// continuing until a return, a panic, or a recovered panic.
//
// After a panic, runFrame panics.
//
// After a normal return, fr.result contains the result of the call
// and fr.block is nil.
//
// A recovered panic in a function without named return parameters
// (NRPs) becomes a normal return of the zero value of the function's
// result type.
//
// After a recovered panic in a function with NRPs, fr.result is
// undefined and fr.block contains the block at which to resume
// control.
func runFrame(fr *frame) {
	defer func() {
		if fr.block == nil {
			return // normal return
		}
		r := recover()
		cxr := fr.i.cx
		if cxr.panicStack == "" {
			cxr.panicStack = cxr.stackString()
			if _, isRt := r.(runtime.Error); isRt && cxr.cfg.DebugAborts {
				cxr.panicStack += firstLines(string(debug.Stack()), 40) + "\n"
			}
		}
		// frames above this one are gone
		if fr.depthIdx+1 <= len(cxr.stack) {
			cxr.stack = cxr.stack[:fr.depthIdx+1]
			cxr.depth = fr.depthIdx + 1
		}
		if pa, ok := r.(pathAbort); ok {
			panic(pa) // engine-level abort: invisible to the target program
		}
		if re, ok := r.(runtime.Error); ok && isEngineError(re) {
			panic(pathAbort{"engine-error", re.Error() + " in " + fr.fn.String()})
		}
		fr.panicking = true
		fr.panic = r
		fr.runDefers()
		fr.block = fr.fn.Recover
	}()

	cx := fr.i.cx
	for {
		// unwinding bound: back-edges taken to one block within one activation
		if fr.prevBlock != nil && fr.block.Index <= fr.prevBlock.Index {
			if fr.visits == nil {
				fr.visits = make([]int32, len(fr.fn.Blocks))
			}
			bi := fr.block.Index
			// an iteration that recorded no decision (branch, pick, assume) is
			// concretely determined: it is bounded by the step budget instead
			if tl := int32(len(cx.trace)); fr.visitTrace == nil || fr.visitTrace[bi] != tl+1 {
				if fr.visitTrace == nil {
					fr.visitTrace = make([]int32, len(fr.fn.Blocks))
				}
				fr.visitTrace[bi] = tl + 1
				fr.visits[bi]++
			}
			if int(fr.visits[bi]) > cx.cfg.Unwind {
				cx.abort("unwind-exceeded", fmt.Sprintf("%s block %d", fr.fn, bi))
			}
		}
		nonPhis := executePhis(fr)
		cx.steps += len(nonPhis)
		if cx.steps > cx.cfg.MaxSteps {
			cx.abort("unwind-exceeded", "step budget")
		}
		for _, instr := range nonPhis {
			if visitInstr(fr, instr) == kReturn {
				return
			}
			// Inv: kNext (continue) or kJump (last instr)
		}
	}
}

func isEngineError(re runtime.Error) bool {
	m := re.Error()
	return strings.Contains(m, "symx.") && strings.Contains(m, "interface conversion")
}

// executePhis executes the phi-nodes at the start of the current
// block and returns the non-phi instructions.
func executePhis(fr *frame) []ssa.Instruction {
	firstNonPhi := -1
	for i, instr := range fr.block.Instrs {
		if _, ok := instr.(*ssa.Phi); !ok {
			firstNonPhi = i
			break
		}
	}
	// Inv: 0 <= firstNonPhi; every block contains a non-phi.

	nonPhis := fr.block.Instrs[firstNonPhi:]
	if firstNonPhi > 0 {
		phis := fr.block.Instrs[:firstNonPhi]
		// Execute parallel assignment of phis.
		//
		// See "the swap problem" in Briggs et al's "Practical Improvements
		// to the Construction and Destruction of SSA Form" for discussion.
		predIndex := slices.Index(fr.block.Preds, fr.prevBlock)
		fr.phitemps = fr.phitemps[:0]
		for _, phi := range phis {
			phi := phi.(*ssa.Phi)
			fr.phitemps = append(fr.phitemps, fr.get(phi.Edges[predIndex]))
		}
		for i, phi := range phis {
			fr.env[fr.info.num[phi.(*ssa.Phi)]] = fr.phitemps[i]
		}
	}
	return nonPhis
}

// doRecover implements the recover() built-in.
func doRecover(caller *frame) value {
	// recover() must be exactly one level beneath the deferred
	// function (two levels beneath the panicking function) to
	// have any effect.  Thus we ignore both "defer recover()" and
	// "defer f() -> g() -> recover()".
	if caller.i.mode&DisableRecover == 0 &&
		caller != nil && !caller.panicking &&
		caller.caller != nil && caller.caller.panicking {
		caller.caller.panicking = false
		p := caller.caller.panic
		caller.caller.panic = nil

		// TODO(adonovan): support runtime.Goexit.
		switch p := p.(type) {
		case targetPanic:
			// The target program explicitly called panic().
			return p.v
		case runtime.Error:
			// The interpreter encountered a runtime error.
			return iface{caller.i.runtimeErrorString, p.Error()}
		case string:
			// The interpreter explicitly called panic().
			return iface{caller.i.runtimeErrorString, p}
		case pathAbort:
			panic(p)
		case error:
			return iface{caller.i.runtimeErrorString, p.Error()}
		default:
			panic(fmt.Sprintf("unexpected panic type %T in target call to recover()", p))
		}
	}
	return iface{}
}

// newInterpreter creates an interpreter with fresh global storage.
func newInterpreter(prog *ssa.Program, sizes types.Sizes, cx *pathCtx, globalsOf []*ssa.Package) *interpreter {
	i := &interpreter{
		prog:       prog,
		globals:    make(map[*ssa.Global]*value),
		sizes:      sizes,
		goroutines: 1,
		cx:         cx,
		initDone:   map[*ssa.Package]bool{},
	}
	runtimePkg := i.prog.ImportedPackage("runtime")
	if runtimePkg != nil {
		i.runtimeErrorString = runtimePkg.Type("errorString").Object().Type()
	}
	initReflect(i)
	i.presetGlobals()
	return i
}

// presetGlobals gives library globals whose package init is not executed
// the marker values our intrinsics expect.
func (i *interpreter) presetGlobals() {
	if pkg := i.prog.ImportedPackage("encoding/base64"); pkg != nil {
		for _, name := range []string{"StdEncoding", "RawStdEncoding", "URLEncoding", "RawURLEncoding"} {
			if g, ok := pkg.Members[name].(*ssa.Global); ok {
				var marker value = structure{name}
				var cell value = &marker
				i.globals[g] = &cell
			}
		}
	}
}

func mustDeref(t types.Type) types.Type {
	if p, ok := t.Underlying().(*types.Pointer); ok {
		return p.Elem()
	}
	panic("mustDeref: " + t.String())
}

// fnInfo caches per-function facts (per worker: no locking).
type fnInfo struct {
	name     string
	ext      externalFn
	interp   bool
	skipInit bool
	seen     bool
	num      map[ssa.Value]int
	nvals    int
}

func (cx *pathCtx) fnInfo(fn *ssa.Function) *fnInfo {
	if info, ok := cx.fninfo[fn]; ok {
		return info
	}
	info := &fnInfo{name: fn.String()}
	info.ext = externals[info.name]
	if info.ext == nil {
		info.ext = externalsByPrefix(info.name)
	}
	if info.ext == nil {
		if fn.Name() == "init" && fn.Pkg != nil && fn.Parent() == nil && fn.Signature.Recv() == nil && !initAllowed(fn.Pkg.Pkg.Path()) {
			info.skipInit = true
		}
		info.interp = Interpretable(fn)
		if !info.interp {
			info.ext = externalsByPrefix(info.name)
		}
	}
	if info.ext == nil && fn.Blocks != nil {
		info.num = map[ssa.Value]int{}
		add := func(v ssa.Value) {
			if _, ok := info.num[v]; !ok {
				info.num[v] = len(info.num)
			}
		}
		for _, l := range fn.Locals {
			add(l)
		}
		for _, p := range fn.Params {
			add(p)
		}
		for _, fv := range fn.FreeVars {
			add(fv)
		}
		for _, b := range fn.Blocks {
			for _, in := range b.Instrs {
				if v, ok := in.(ssa.Value); ok {
					add(v)
				}
			}
		}
		info.nvals = len(info.num)
	}
	if cx.fninfo == nil {
		cx.fninfo = map[*ssa.Function]*fnInfo{}
	}
	cx.fninfo[fn] = info
	return info
}
