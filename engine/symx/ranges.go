package symx

import "math/big"

// Interval pre-filter. Facts of the form "lo <= t <= hi" (signed) are
// collected from assumptions and decided branches of the current path; a
// comparison whose operands have disjoint / ordered intervals is folded to a
// constant before it reaches the solver. This is plain (sound) interval
// arithmetic without wrap-around: whenever an operation could overflow the
// signed range of its width the result is the full range.

type rng struct {
	lo, hi *big.Int
}

func fullRange(w int) rng {
	h := new(big.Int).Lsh(big.NewInt(1), uint(w-1))
	return rng{new(big.Int).Neg(h), new(big.Int).Sub(h, big.NewInt(1))}
}

func (r rng) within(w int) bool {
	f := fullRange(w)
	return r.lo.Cmp(f.lo) >= 0 && r.hi.Cmp(f.hi) <= 0
}

// srange returns an interval containing the signed value of t.
func (cx *pathCtx) srange(t *Term, depth int) rng {
	if t.w == 0 {
		return rng{big.NewInt(0), big.NewInt(1)}
	}
	if t.op == OpConst {
		v := toSigned(t.c, t.w)
		return rng{v, v}
	}
	r := fullRange(t.w)
	if f, ok := cx.facts[t]; ok {
		r = f
	}
	if depth > 6 {
		return r
	}
	var d rng
	have := false
	switch t.op {
	case OpAdd:
		a, b := cx.srange(t.a[0], depth+1), cx.srange(t.a[1], depth+1)
		d = rng{new(big.Int).Add(a.lo, b.lo), new(big.Int).Add(a.hi, b.hi)}
		have = d.within(t.w)
	case OpNeg:
		a := cx.srange(t.a[0], depth+1)
		d = rng{new(big.Int).Neg(a.hi), new(big.Int).Neg(a.lo)}
		have = d.within(t.w)
	case OpSExt:
		d = cx.srange(t.a[0], depth+1)
		have = true
	case OpZExt:
		a := cx.srange(t.a[0], depth+1)
		if a.lo.Sign() >= 0 {
			d, have = a, true
		} else {
			d = rng{big.NewInt(0), new(big.Int).Sub(new(big.Int).Lsh(big.NewInt(1), uint(t.a[0].w)), big.NewInt(1))}
			have = d.within(t.w)
		}
	case OpExtract:
		if t.lo == 0 {
			a := cx.srange(t.a[0], depth+1)
			if a.within(t.w) {
				d, have = a, true
			}
		}
	case OpIte:
		a, b := cx.srange(t.a[1], depth+1), cx.srange(t.a[2], depth+1)
		lo, hi := a.lo, a.hi
		if b.lo.Cmp(lo) < 0 {
			lo = b.lo
		}
		if b.hi.Cmp(hi) > 0 {
			hi = b.hi
		}
		d, have = rng{lo, hi}, true
	}
	if have {
		if d.lo.Cmp(r.lo) > 0 {
			r.lo = d.lo
		}
		if d.hi.Cmp(r.hi) < 0 {
			r.hi = d.hi
		}
	}
	return r
}

// rangeDecide folds a comparison by intervals; ok=false if undetermined.
func (cx *pathCtx) rangeDecide(c *Term) (val bool, ok bool) {
	if len(cx.facts) == 0 {
		return false, false
	}
	switch c.op {
	case OpBNot:
		v, ok := cx.rangeDecide(c.a[0])
		return !v, ok
	case OpBAnd:
		v1, ok1 := cx.rangeDecide(c.a[0])
		v2, ok2 := cx.rangeDecide(c.a[1])
		if (ok1 && !v1) || (ok2 && !v2) {
			return false, true
		}
		if ok1 && ok2 {
			return true, true
		}
		return false, false
	case OpBOr:
		v1, ok1 := cx.rangeDecide(c.a[0])
		v2, ok2 := cx.rangeDecide(c.a[1])
		if (ok1 && v1) || (ok2 && v2) {
			return true, true
		}
		if ok1 && ok2 {
			return false, true
		}
		return false, false
	case OpSLt, OpSLe, OpEq, OpULt, OpULe:
		if c.a[0].w == 0 {
			return false, false
		}
		a, b := cx.srange(c.a[0], 0), cx.srange(c.a[1], 0)
		switch c.op {
		case OpULt, OpULe:
			// unsigned order coincides with signed order on non-negative values
			if a.lo.Sign() < 0 || b.lo.Sign() < 0 {
				return false, false
			}
		}
		switch c.op {
		case OpSLt, OpULt:
			if a.hi.Cmp(b.lo) < 0 {
				return true, true
			}
			if a.lo.Cmp(b.hi) >= 0 {
				return false, true
			}
		case OpSLe, OpULe:
			if a.hi.Cmp(b.lo) <= 0 {
				return true, true
			}
			if a.lo.Cmp(b.hi) > 0 {
				return false, true
			}
		case OpEq:
			if a.hi.Cmp(b.lo) < 0 || b.hi.Cmp(a.lo) < 0 {
				return false, true
			}
			if a.lo.Cmp(a.hi) == 0 && b.lo.Cmp(b.hi) == 0 && a.lo.Cmp(b.lo) == 0 {
				return true, true
			}
		}
	}
	return false, false
}

// learn records interval facts implied by "c == v" being on the path.
func (cx *pathCtx) learn(c *Term, v bool) {
	if c.op == OpBNot {
		cx.learn(c.a[0], !v)
		return
	}
	if c.op == OpBAnd && v {
		cx.learn(c.a[0], true)
		cx.learn(c.a[1], true)
		return
	}
	if c.op == OpBOr && !v {
		cx.learn(c.a[0], false)
		cx.learn(c.a[1], false)
		return
	}
	if c.op != OpSLt && c.op != OpSLe && c.op != OpEq {
		return
	}
	x, y := c.a[0], c.a[1]
	if x.w == 0 {
		return
	}
	one := big.NewInt(1)
	upd := func(t *Term, lo, hi *big.Int) {
		if t.op == OpConst {
			return
		}
		if cx.facts == nil {
			cx.facts = map[*Term]rng{}
		}
		r, ok := cx.facts[t]
		if !ok {
			r = fullRange(t.w)
		}
		if lo != nil && lo.Cmp(r.lo) > 0 {
			r.lo = lo
		}
		if hi != nil && hi.Cmp(r.hi) < 0 {
			r.hi = hi
		}
		if r.lo.Cmp(r.hi) > 0 {
			return // contradictory: leave it to the solver
		}
		cx.facts[t] = r
	}
	rx, ry := cx.srange(x, 0), cx.srange(y, 0)
	switch {
	case c.op == OpSLt && v: // x < y
		upd(x, nil, new(big.Int).Sub(ry.hi, one))
		upd(y, new(big.Int).Add(rx.lo, one), nil)
	case c.op == OpSLt && !v: // x >= y
		upd(x, ry.lo, nil)
		upd(y, nil, rx.hi)
	case c.op == OpSLe && v: // x <= y
		upd(x, nil, ry.hi)
		upd(y, rx.lo, nil)
	case c.op == OpSLe && !v: // x > y
		upd(x, new(big.Int).Add(ry.lo, one), nil)
		upd(y, nil, new(big.Int).Sub(rx.hi, one))
	case c.op == OpEq && v:
		upd(x, ry.lo, ry.hi)
		upd(y, rx.lo, rx.hi)
	}
}
