package symx

import (
	"fmt"
	"go/token"
	"go/types"
	"math/big"
	"os"
	"runtime"
	"runtime/debug"
	"strings"
	"sync"
	"time"

	"golang.org/x/tools/go/packages"
	"golang.org/x/tools/go/ssa"
	"golang.org/x/tools/go/ssa/ssautil"
)

// Program is a loaded and SSA-built view of /repo plus overlay harness files.
type Program struct {
	Prog    *ssa.Program
	Pkgs    []*ssa.Package
	All     []*ssa.Package
	Sizes   types.Sizes
	LoadSec float64
}

// GoBin is the directory of the go command used to load packages (the newer
// toolchain pre-installed beside the default one).
var GoBin = "/opt/veriftools/go1.26.8/bin"

// Load loads the given package patterns from dir with the overlay applied.
func Load(dir string, overlay map[string][]byte, tags string, patterns []string) (*Program, error) {
	t0 := time.Now()
	// go/packages resolves "go" through this process's PATH
	if !strings.HasPrefix(os.Getenv("PATH"), GoBin+":") {
		os.Setenv("PATH", GoBin+":"+os.Getenv("PATH"))
	}
	cfg := &packages.Config{
		Mode:       packages.LoadAllSyntax,
		Dir:        dir,
		Overlay:    overlay,
		Env:        append(os.Environ(), "GOFLAGS=-mod=mod", "GOPROXY=off", "GOSUMDB=off", "GOTOOLCHAIN=local"),
		BuildFlags: []string{"-tags=" + tags},
	}
	pkgs, err := packages.Load(cfg, patterns...)
	if err != nil {
		return nil, err
	}
	nerr := 0
	packages.Visit(pkgs, nil, func(p *packages.Package) {
		for _, e := range p.Errors {
			if nerr < 20 {
				fmt.Fprintln(os.Stderr, "load error:", e)
			}
			nerr++
		}
	})
	if nerr > 0 {
		return nil, fmt.Errorf("%d package load errors", nerr)
	}
	prog, spkgs := ssautil.AllPackages(pkgs, ssa.InstantiateGenerics)
	prog.Build()
	p := &Program{Prog: prog, Sizes: types.SizesFor("gc", "amd64")}
	for _, sp := range spkgs {
		if sp != nil {
			p.Pkgs = append(p.Pkgs, sp)
		}
	}
	p.All = prog.AllPackages()
	p.LoadSec = time.Since(t0).Seconds()
	return p, nil
}

// FindHarness locates function name in package path pkgPath.
func (p *Program) FindHarness(pkgPath, name string) *ssa.Function {
	for _, sp := range p.All {
		if sp.Pkg.Path() == pkgPath {
			return sp.Func(name)
		}
	}
	return nil
}

// ListHarnesses returns functions named Verif* in the loaded root packages.
func (p *Program) ListHarnesses() []*ssa.Function {
	var out []*ssa.Function
	for _, sp := range p.Pkgs {
		for name, m := range sp.Members {
			if fn, ok := m.(*ssa.Function); ok && strings.HasPrefix(name, "Verif") && fn.Signature.Params().Len() == 0 {
				out = append(out, fn)
			}
		}
	}
	return out
}

// globalsPackages returns packages whose globals need storage.
func (p *Program) globalsPackages() []*ssa.Package {
	var out []*ssa.Package
	for _, sp := range p.All {
		path := sp.Pkg.Path()
		if isYorkie(path) {
			out = append(out, sp)
			continue
		}
		if _, ok := InterpStd[path]; ok {
			out = append(out, sp)
			continue
		}
		switch path {
		case "fmt", "os", "sync", "sync/atomic", "unicode", "reflect", "runtime", "encoding/base64", "encoding/hex", "encoding/json", "regexp", "math/rand", "crypto/rand":
			out = append(out, sp)
		}
	}
	return out
}

type worker struct {
	id   int
	prog *Program
	cx   *pathCtx
	gp   []*ssa.Package
}

// runPath executes the harness once under the given decision prefix.
func (w *worker) runPath(fn *ssa.Function, prefix []rec) (outcome string, completed bool, detail string) {
	cx := w.cx
	cx.beginPath(prefix)
	defer cx.endPath()
	i := newInterpreter(w.prog.Prog, w.prog.Sizes, cx, w.gp)
	defer func() {
		r := recover()
		if r == nil {
			return
		}
		switch p := r.(type) {
		case pathAbort:
			outcome, completed, detail = p.reason, false, p.detail
			if p.reason == "unsupported" || p.reason == "missing-intrinsic" || p.reason == "engine-error" {
				outcome = p.reason + ": " + p.detail
			}
		case targetPanic:
			msg := panicMessage(i, p.v)
			w.reportPanic("uncaught panic: " + msg)
			outcome, completed, detail = "panic", true, msg
		case runtime.Error:
			if isEngineError(p) {
				outcome, completed, detail = "engine-error: "+p.Error(), false, string(debug.Stack())
				return
			}
			w.reportPanic("runtime error: " + p.Error())
			outcome, completed, detail = "panic", true, p.Error()
		case string:
			w.reportPanic(p)
			outcome, completed, detail = "panic", true, p
		default:
			outcome, completed, detail = fmt.Sprintf("engine-error: %v", r), false, string(debug.Stack())
		}
	}()
	// package initialisation: the harness package's init pulls in its deps
	cx.lenient = true
	call(i, nil, token.NoPos, fn.Pkg.Func("init"), nil)
	cx.lenient = false
	cx.steps = 0
	call(i, nil, token.NoPos, fn, nil)
	if cx.concrete == nil && cx.ex.wantValidation() {
		if cx.ensureModel() {
			m := cx.model
			cx.ex.addValidation(ValidationCase{Harness: cx.ex.res.Harness, Valuation: cx.valuation(m), Observed: renderObserved(cx.observed, m), Choices: cx.choiceString()})
		}
	}
	return "ok", true, ""
}

func panicMessage(i *interpreter, v value) string {
	if itf, ok := v.(iface); ok {
		if s, ok := itf.v.(string); ok {
			return s
		}
		if itf.t != nil && implementsError(itf.t) {
			fr := &frame{i: i}
			func() {
				defer func() { recover() }()
				if r, ok := callMethod(fr, itf, "Error"); ok {
					v = r
				}
			}()
		}
	}
	return toString(v)
}

func (w *worker) reportPanic(msg string) {
	cx := w.cx
	if cx.concrete != nil {
		cx.reportViolation("no-panic", "panic", msg, cx.concrete)
		return
	}
	cx.qAssert++
	if !cx.ensureModel() {
		cx.aUnk++
		return
	}
	cx.reportViolation("no-panic", "panic", msg, cx.model)
}

// Explore runs harness fn over all paths within cfg's bounds.
func (p *Program) Explore(fn *ssa.Function, cfg Config) *Result {
	t0 := time.Now()
	name := fn.Name()
	ex := newExplorer(cfg, name)
	gp := p.globalsPackages()
	nw := cfg.Workers
	if nw < 1 {
		nw = 1
	}
	var wg sync.WaitGroup
	solvers := make([]*Solver, 0, nw*3)
	var smu sync.Mutex
	for k := 0; k < nw; k++ {
		wg.Add(1)
		go func(k int) {
			defer wg.Done()
			s, err := NewSolver(cfg.Solver, cfg.TimeoutMs)
			if err != nil {
				ex.mu.Lock()
				ex.res.Inconclusive = append(ex.res.Inconclusive, "solver start: "+err.Error())
				ex.stop = true
				ex.cond.Broadcast()
				ex.mu.Unlock()
				return
			}
			cx := &pathCtx{ex: ex, cfg: cfg, f: NewFactory(), s: s, funcs: map[string]bool{}, intr: map[string]bool{}}
			smu.Lock()
			solvers = append(solvers, s)
			smu.Unlock()
			if cfg.CrossCheck {
				s.keepScript = true
				for _, kind := range []SolverKind{Z3New, CVC5} {
					if kind == cfg.Solver {
						continue
					}
					a, err := NewSolver(kind, cfg.TimeoutMs)
					if err == nil {
						cx.alt = append(cx.alt, a)
						smu.Lock()
						solvers = append(solvers, a)
						smu.Unlock()
					}
				}
			}
			w := &worker{id: k, prog: p, cx: cx, gp: gp}
			for {
				prefix, ok := ex.take()
				if !ok {
					break
				}
				outcome, completed, detail := w.runPath(fn, prefix)
				if cfg.DebugAborts && (outcome == "panic" || (!completed && (outcome != "assume" || ex.res.Pruned < 3) && outcome != "assert-false")) {
					fmt.Fprintf(os.Stderr, "[abort] %s: %s\n  choices: %s\n%s", outcome, firstLines(detail, 30), cx.choiceString(), cx.panicStack)
				}
				alts := cx.alts
				ex.merge(cx, outcome, completed)
				ex.done(alts)
			}
		}(k)
	}
	doneCh := make(chan struct{})
	go func() {
		tick := time.NewTicker(10 * time.Second)
		defer tick.Stop()
		for {
			select {
			case <-doneCh:
				return
			case <-tick.C:
				ex.mu.Lock()
				el := time.Since(t0).Seconds()
				if cfg.Progress {
					fmt.Fprintf(os.Stderr, "  [%s %.0fs] paths=%d completed=%d viol=%d queue=%d\n", name, el, ex.res.Paths, ex.res.PathsCompleted, len(ex.res.Violations), len(ex.work))
				}
				if cfg.MaxSeconds > 0 && el > float64(cfg.MaxSeconds) && !ex.stop {
					ex.stop = true
					ex.res.Inconclusive = append(ex.res.Inconclusive, fmt.Sprintf("time budget %ds reached", cfg.MaxSeconds))
					ex.cond.Broadcast()
				}
				ex.mu.Unlock()
			}
		}
	}()
	wg.Wait()
	close(doneCh)
	res := ex.finish(t0, solvers)
	for _, s := range solvers {
		s.Close()
	}
	return res
}

func firstLines(s string, n int) string {
	lines := strings.Split(s, "\n")
	if len(lines) > n {
		lines = lines[:n]
	}
	return strings.Join(lines, "\n")
}

// renderObserved evaluates observations under a model.
func renderObserved(obs []value, m map[string]*big.Int) []string {
	out := make([]string, len(obs))
	memo := map[*Term]*big.Int{}
	for i, v := range obs {
		out[i] = renderValue(v, m, memo)
	}
	return out
}

func renderValue(v value, m map[string]*big.Int, memo map[*Term]*big.Int) string {
	switch x := v.(type) {
	case iface:
		if x.t == nil {
			return "<nil>"
		}
		return renderValue(x.v, m, memo)
	case sym:
		w, signed := kindWidth(x.k)
		r := x.t.Eval(m, memo)
		if signed {
			return toSigned(r, w).String()
		}
		return r.String()
	case symb:
		if x.t.Eval(m, memo).Sign() != 0 {
			return "true"
		}
		return "false"
	case *symstr:
		return x.render(m)
	case string:
		return x
	case bool, int, int8, int16, int32, int64, uint, uint8, uint16, uint32, uint64, uintptr:
		return fmt.Sprintf("%v", x)
	case []value:
		parts := make([]string, len(x))
		for i, e := range x {
			parts[i] = renderValue(e, m, memo)
		}
		return "[" + strings.Join(parts, " ") + "]"
	case array:
		parts := make([]string, len(x))
		for i, e := range x {
			parts[i] = renderValue(e, m, memo)
		}
		return "[" + strings.Join(parts, " ") + "]"
	}
	return fmt.Sprintf("<%T>", v)
}

// ---- harness API intrinsics -------------------------------------------------

func hname(args []value) string {
	s, ok := args[0].(string)
	if !ok {
		panic(pathAbort{"engine-error", "harness variable name must be a constant string"})
	}
	return s
}

func symInt(k types.BasicKind) externalFn {
	return func(fr *frame, args []value) value {
		cx := fr.i.cx
		w, _ := kindWidth(k)
		t := cx.declareNew(hname(args), w)
		if cx.concrete != nil {
			return cx.fromTerm(cx.f.Const(t.Eval(cx.concrete, map[*Term]*big.Int{}), w), k)
		}
		return sym{t, k}
	}
}

func init() {
	h := HarnessPkg + "."
	api := map[string]externalFn{
		h + "Int64":  symInt(types.Int64),
		h + "Int32":  symInt(types.Int32),
		h + "Int":    symInt(types.Int),
		h + "Uint64": symInt(types.Uint64),
		h + "Uint32": symInt(types.Uint32),
		h + "Uint16": symInt(types.Uint16),
		h + "Uint8":  symInt(types.Uint8),
		h + "Bool": func(fr *frame, args []value) value {
			cx := fr.i.cx
			t := cx.declareNew(hname(args), 0)
			if cx.concrete != nil {
				return t.Eval(cx.concrete, map[*Term]*big.Int{}).Sign() != 0
			}
			return symb{t}
		},
		h + "IntRange": func(fr *frame, args []value) value {
			return fr.i.cx.choose(hname(args), args[1].(int), args[2].(int))
		},
		h + "Bytes": func(fr *frame, args []value) value {
			cx := fr.i.cx
			n := args[1].(int)
			out := make([]value, n)
			for i := 0; i < n; i++ {
				t := cx.declareNew(fmt.Sprintf("%s_%d", hname(args), i), 8)
				if cx.concrete != nil {
					out[i] = uint8(t.Eval(cx.concrete, map[*Term]*big.Int{}).Uint64())
				} else {
					out[i] = sym{t, types.Uint8}
				}
			}
			return out
		},
		h + "Actor": func(fr *frame, args []value) value {
			cx := fr.i.cx
			t := cx.declareNew(hname(args), 96)
			if cx.concrete != nil {
				return array(cx.symBytes(cx.f.Const(t.Eval(cx.concrete, map[*Term]*big.Int{}), 96)))
			}
			return array(cx.symBytes(t))
		},
		h + "DistinctActors": func(fr *frame, args []value) value {
			// DistinctActors(names ...string): pairwise distinct and non-zero
			cx := fr.i.cx
			var ts []*Term
			for _, n := range args[0].([]value) {
				t, ok := cx.varTerm[n.(string)]
				if !ok || t.w != 96 {
					cx.abort("engine-error", "DistinctActors: "+n.(string)+" is not a declared actor")
				}
				ts = append(ts, t)
			}
			zero := cx.f.ConstU(0, 96)
			for i, a := range ts {
				cx.assume(cx.f.Not(cx.f.Cmp(OpEq, a, zero)))
				cx.f.MarkDistinct(a, zero)
				for _, b := range ts[i+1:] {
					cx.assume(cx.f.Not(cx.f.Cmp(OpEq, a, b)))
					cx.f.MarkDistinct(a, b)
				}
			}
			return nil
		},
		h + "Assume": func(fr *frame, args []value) value {
			cx := fr.i.cx
			cx.assume(cx.toBoolTerm(args[0]))
			return nil
		},
		h + "Assert": func(fr *frame, args []value) value {
			cx := fr.i.cx
			cx.assertProp(cx.toBoolTerm(args[0]), args[1].(string))
			return nil
		},
		h + "Reach": func(fr *frame, args []value) value {
			fr.i.cx.reachLabel(args[0].(string))
			return nil
		},
		h + "Observe": func(fr *frame, args []value) value {
			cx := fr.i.cx
			for _, v := range args[0].([]value) {
				cx.observed = append(cx.observed, v)
			}
			return nil
		},
		h + "Fails": func(fr *frame, args []value) value {
			return runCatching(fr, args[0])
		},
		h + "Tier": func(fr *frame, args []value) value { return fr.i.cx.cfg.Tier },
		h + "Seed": func(fr *frame, args []value) value { return fr.i.cx.cfg.Seed },
		h + "Symbolic": func(fr *frame, args []value) value { return true },
		h + "OnReset":  func(fr *frame, args []value) value { return nil },
		h + "Nondet": func(fr *frame, args []value) value {
			cx := fr.i.cx
			t := cx.freshVar(hname(args), 64)
			if cx.concrete != nil {
				return toSigned(t.Eval(cx.concrete, map[*Term]*big.Int{}), 64).Int64()
			}
			return sym{t, types.Int64}
		},
	}
	for k, v := range api {
		externals[k] = v
	}
}

// runCatching calls closure f and reports whether it panicked (target panics
// only; engine aborts propagate).
func runCatching(fr *frame, f value) (panicked value) {
	cx := fr.i.cx
	depth := cx.depth
	nstack := len(cx.stack)
	defer func() {
		r := recover()
		if r == nil {
			return
		}
		switch p := r.(type) {
		case pathAbort:
			panic(p)
		case runtime.Error:
			if isEngineError(p) {
				panic(pathAbort{"engine-error", p.Error()})
			}
		}
		cx.depth = depth
		cx.stack = cx.stack[:nstack]
		cx.panicStack = ""
		cx.lastPanic = fmt.Sprint(r)
		panicked = true
	}()
	call(fr.i, fr, token.NoPos, f, nil)
	return false
}
