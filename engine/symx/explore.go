package symx

import (
	"fmt"
	"math/big"
	"os"
	"regexp"
	"sort"
	"strings"
	"sync"
	"time"

	"golang.org/x/tools/go/ssa"
)

// ---- trace records -------------------------------------------------------

type recKind uint8

const (
	recBranch recKind = iota // decide(cond): taken
	recPick                  // concretisation: cond is x==val, taken
	recChoice                // IntRange: val = chosen index
	recAssume                // Assume(cond) that was feasible
	recAssert                // Assert already checked on an earlier run of this prefix
)

type rec struct {
	kind  recKind
	taken bool
	val   uint64
	h     uint64
}

// pathAbort ends the current path; it is never visible to the target program.
type pathAbort struct {
	reason string // infeasible | assume | unwind-exceeded | unbounded-index | unsupported:... | missing-intrinsic:... | engine-error:... | steps-exceeded | assert-false
	detail string
}

func (p pathAbort) Error() string { return "pathAbort: " + p.reason + " " + p.detail }

// Config bounds and options for one harness run.
type Config struct {
	Solver      SolverKind
	TimeoutMs   int
	Unwind      int // max visits of one loop head per frame activation
	Depth       int // max call depth
	MaxSteps    int // max SSA instructions per path
	KConc       int // max distinct values when concretising one symbolic integer
	MaxPaths    int // fail closed (not exhausted) beyond this
	Tier        int // 0 quick, 1 thorough
	Seed        int64
	Workers     int
	Validate    int  // number of path models to emit for native validation
	CrossCheck  bool // re-issue assertion queries to the other solvers
	MapRotate   bool
	StopOnViol  int // stop exploring after this many violations (0 = never)
	TraceFuncs  bool
	Concrete    map[string]*big.Int // when non-nil: concrete replay of one valuation
	DebugAborts bool
	Known       []KnownPattern // violations matching these do not count towards StopOnViol
	MaxSeconds  int  // wall-clock budget; exceeding it ends exploration as not exhausted
	Progress    bool // print progress lines to stderr
}

func DefaultConfig() Config {
	return Config{Solver: Z3, TimeoutMs: 10000, Unwind: 64, Depth: 200, MaxSteps: 20_000_000, KConc: 16, MaxPaths: 2_000_000, Workers: 8, Validate: 8, StopOnViol: 8}
}

// KnownPattern identifies a recorded finding: assertion id + selector regexp.
type KnownPattern struct {
	Harness string
	Assert  string
	Re      *regexp.Regexp
}

func (k KnownPattern) matches(v Violation) bool {
	if k.Harness != "" && k.Harness != v.Harness {
		return false
	}
	if k.Assert != "" && k.Assert != v.AssertID {
		return false
	}
	return k.Re == nil || k.Re.MatchString(v.Choices)
}

// Violation is one failed assertion with a model.
type Violation struct {
	Harness   string            `json:"harness"`
	AssertID  string            `json:"assert_id"`
	Kind      string            `json:"kind"` // assert | panic
	Detail    string            `json:"detail,omitempty"`
	Valuation map[string]string `json:"valuation"` // var -> hex
	Choices   string            `json:"choices"`   // selector assignment summary
	Signature string            `json:"signature"`
	Known     bool              `json:"matches_known_finding,omitempty"`
}

// ValidationCase is a path model with the observations the engine predicts.
type ValidationCase struct {
	Harness   string            `json:"harness"`
	Valuation map[string]string `json:"valuation"`
	Observed  []string          `json:"observed"`
	Choices   string            `json:"choices"`
}

type PathSample struct {
	Choices   string `json:"choices"`
	Decisions int    `json:"decisions"`
	Forks     int    `json:"forks"`
	Outcome   string `json:"outcome"`
	Asserts   int    `json:"asserts"`
}

// Result of exploring one harness.
type Result struct {
	Harness          string         `json:"harness"`
	Paths            int            `json:"paths"`
	PathsCompleted   int            `json:"paths_completed"`
	Pruned           int            `json:"pruned_by_assume"`
	Aborts           map[string]int `json:"aborts"`
	Decisions        int            `json:"decisions"`
	Forks            int            `json:"forks"`
	QFeas            int            `json:"queries_feasibility"`
	QAssert          int            `json:"queries_assertion"`
	QVacuity         int            `json:"queries_vacuity"`
	QConc            int            `json:"queries_concretisation"`
	QCross           int            `json:"queries_cross_solver"`
	CrossDisagree    int            `json:"cross_solver_disagreements"`
	MemoHits         int            `json:"memo_hits"`
	SolverSec        float64        `json:"solver_s"`
	ModelSec         float64        `json:"solver_model_s"`
	Models           int            `json:"models_fetched"`
	AssertsSymbolic  int            `json:"asserts_discharged_by_solver"`
	AssertsConcrete  int            `json:"asserts_concretely_true"`
	AssertsUnknown   int            `json:"asserts_unknown"`
	Unknown          int            `json:"unknown_feasibility"`
	Violations       []Violation    `json:"violations"`
	KnownHits        int            `json:"violations_matching_known_findings"`
	Reach            map[string]int `json:"reach"`
	Funcs            []string       `json:"functions_encoded"`
	Intrinsics       []string       `json:"intrinsics_used"`
	Validations      []ValidationCase `json:"validations"`
	Samples          []PathSample   `json:"samples"`
	Exhausted        bool           `json:"exhausted"`
	WallSec          float64        `json:"wall_s"`
	Inconclusive     []string       `json:"inconclusive_reasons"`
	SolverErrors     int            `json:"solver_errors"`
	MaxDecisionDepth int            `json:"max_decision_depth"`
	Steps            int64          `json:"ssa_instructions_executed"`
}

// shared exploration state
type explorer struct {
	mu      sync.Mutex
	cond    *sync.Cond
	work    [][]rec
	active  int
	stop    bool
	res     *Result
	funcs   map[string]bool
	intr    map[string]bool
	cfg     Config
	sigSeen map[string]bool
	vacSeen map[string]bool
	nVal    int
	newViol int
	knownCount map[int]int
}

func newExplorer(cfg Config, name string) *explorer {
	e := &explorer{cfg: cfg, res: &Result{Harness: name, Aborts: map[string]int{}, Reach: map[string]int{}}, funcs: map[string]bool{}, intr: map[string]bool{}, sigSeen: map[string]bool{}, vacSeen: map[string]bool{}, knownCount: map[int]int{}}
	e.cond = sync.NewCond(&e.mu)
	e.work = [][]rec{{}}
	return e
}

func (e *explorer) take() ([]rec, bool) {
	e.mu.Lock()
	defer e.mu.Unlock()
	for {
		if e.stop {
			return nil, false
		}
		if n := len(e.work); n > 0 {
			p := e.work[n-1]
			e.work = e.work[:n-1]
			e.active++
			return p, true
		}
		if e.active == 0 {
			e.cond.Broadcast()
			return nil, false
		}
		e.cond.Wait()
	}
}

func (e *explorer) done(alts [][]rec) {
	e.mu.Lock()
	e.work = append(e.work, alts...)
	e.active--
	e.cond.Broadcast()
	e.mu.Unlock()
}

// ---- per-worker path context ---------------------------------------------

type obsItem struct {
	v value
}

type pathCtx struct {
	ex     *explorer
	cfg    Config
	f      *Factory
	s      *Solver
	alt    []*Solver // cross-check solvers
	prefix []rec
	trace  []rec
	memo   map[*Term]bool
	alts   [][]rec
	forks  int

	varOrder []string
	varTerm  map[string]*Term
	choices  []string

	observed []value
	reach    []string
	asserts  int
	steps    int
	depth    int
	funcs    map[string]bool
	intr     map[string]bool

	// per-path result deltas
	qFeas, qAssert, qVac, qConc, qCross, crossDis, memoHits int
	aSym, aConc, aUnk, unknown                                  int
	viol                                                        []Violation
	concrete                                                    map[string]*big.Int
	fresh                                                       int
	builders                                                    map[*value]*value
	onces                                                       map[*value]bool
	lenient                                                     bool
	lastPanic                                                   string
	fninfo                                                      map[*ssa.Function]*fnInfo
	model                                                       map[string]*big.Int
	lastTrace                                                   []rec
	shared                                                      int
	facts                                                       map[*Term]rng
	clock                                                       int64
	rangeHits                                                   int
	bridgeName                                                  string
	curFn                                                       string
	stack                                                       []*frame
	panicStack                                                  string
}

func (cx *pathCtx) abort(reason, detail string) {
	if reason == "assume" && cx.cfg.DebugAborts && detail == "" {
		detail = cx.stackString()
	}
	panic(pathAbort{reason, detail})
}

func (cx *pathCtx) unsupported(what string) {
	panic(pathAbort{"unsupported", what})
}

func (cx *pathCtx) beginPath(prefix []rec) {
	cx.prefix = prefix
	cx.memo = map[*Term]bool{}
	cx.alts = nil
	cx.forks = 0
	cx.varOrder = cx.varOrder[:0]
	cx.varTerm = map[string]*Term{}
	cx.choices = cx.choices[:0]
	cx.observed = nil
	cx.reach = nil
	cx.asserts = 0
	cx.steps = 0
	cx.depth = 0
	cx.viol = nil
	cx.fresh = 0
	cx.builders = nil
	cx.onces = nil
	cx.stack = cx.stack[:0]
	cx.panicStack = ""
	cx.model = nil
	cx.facts = nil
	cx.clock = 0
	if cx.f.Size() > 2_000_000 {
		cx.f = NewFactory()
		cx.lastTrace = nil
		if cx.s != nil {
			cx.s.ResetAll()
		}
	}
	cx.f.distinct = map[[2]int]bool{} // distinctness facts hold only under this path's assumptions
	// solver state shared with the previous path of this worker: the longest
	// common prefix of decision records
	k := 0
	if cx.s != nil {
		for k < len(prefix) && k < len(cx.lastTrace) && prefix[k] == cx.lastTrace[k] {
			k++
		}
		cx.s.PopTo(k)
		cx.s.BeginPath()
	}
	cx.shared = k
	cx.trace = cx.trace[:0]
}

func (cx *pathCtx) endPath() {
	cx.lastTrace = append(cx.lastTrace[:0], cx.trace...)
	if cx.s != nil {
		// the solver holds one scope per record that was actually sent
		if cx.s.Level() < len(cx.lastTrace) {
			cx.lastTrace = cx.lastTrace[:cx.s.Level()]
		}
		cx.s.EndPath()
	}
}

func (cx *pathCtx) setMemo(c *Term, v bool) {
	cx.memo[c] = v
	cx.memo[cx.f.Not(c)] = !v
	cx.learn(c, v)
}

// record appends a trace record and mirrors it in the solver: one scope per
// record, holding the record's assertion (if any). Records inside the part
// of the prefix shared with the previous path are already in the solver.
func (cx *pathCtx) record(r rec, assertion *Term) {
	i := len(cx.trace)
	cx.trace = append(cx.trace, r)
	if i < cx.shared {
		return
	}
	if cx.s.Level() != i {
		cx.abort("engine-error", fmt.Sprintf("solver scope %d out of step with trace %d", cx.s.Level(), i))
	}
	// define before opening the scope so that the definition survives a pop
	// to this level only if it belongs to an earlier record
	cx.s.PushScope()
	if assertion != nil && assertion.op != OpConst {
		cx.s.Assert(assertion)
	} else if assertion != nil && assertion.isFalse() {
		cx.s.Assert(assertion)
	}
}

func (cx *pathCtx) lit(c *Term, taken bool) *Term {
	if taken {
		return c
	}
	return cx.f.Not(c)
}

func (cx *pathCtx) nextPrefix(kind recKind, h uint64) (rec, bool) {
	i := len(cx.trace)
	if i < len(cx.prefix) {
		r := cx.prefix[i]
		if r.kind != kind || (h != 0 && r.h != h) {
			cx.abort("engine-error", fmt.Sprintf("trace divergence at %d: want kind %d h %x, have kind %d h %x", i, r.kind, r.h, kind, h))
		}
		return r, true
	}
	return rec{}, false
}

func (cx *pathCtx) check(c *Term, negate bool, counter *int) Verdict {
	*counter++
	return cx.s.Check(c, negate)
}

// ensureModel makes cx.model a model of the current path condition.
func (cx *pathCtx) ensureModel() bool {
	if cx.model != nil {
		return true
	}
	cx.qFeas++
	m, ok := cx.s.Model(nil, false)
	if !ok {
		return false
	}
	cx.model = m
	return true
}

func (cx *pathCtx) evalModel(c *Term) bool {
	return c.Eval(cx.model, map[*Term]*big.Int{}).Sign() != 0
}

// decide resolves a symbolic boolean on the current path, forking if both
// outcomes are feasible. The current model witnesses one side for free; the
// solver is asked about the other side only.
func (cx *pathCtx) decide(c *Term) bool {
	if c.w != 0 {
		panic("decide: not Bool")
	}
	if c.op == OpConst {
		return c.isTrue()
	}
	if cx.concrete != nil {
		return c.Eval(cx.concrete, map[*Term]*big.Int{}).Sign() != 0
	}
	if v, ok := cx.memo[c]; ok {
		cx.memoHits++
		return v
	}
	if v, ok := cx.rangeDecide(c); ok {
		cx.rangeHits++
		cx.memo[c] = v
		cx.memo[cx.f.Not(c)] = !v
		return v
	}
	if r, ok := cx.nextPrefix(recBranch, c.h); ok {
		cx.record(r, cx.lit(c, r.taken))
		cx.setMemo(c, r.taken)
		return r.taken
	}
	var taken, both bool
	if cx.ensureModel() {
		taken = cx.evalModel(c)
		vo := cx.check(c, taken, &cx.qFeas) // the side the model does not witness
		both = vo != Unsat
		if vo == Unknown {
			cx.unknown++
		}
	} else {
		// no model (solver unknown): fall back to two feasibility queries
		vt := cx.check(c, false, &cx.qFeas)
		vf := cx.check(c, true, &cx.qFeas)
		if vt == Unknown || vf == Unknown {
			cx.unknown++
		}
		if vt == Unsat && vf == Unsat {
			cx.abort("infeasible", "")
		}
		taken = vt != Unsat
		both = vt != Unsat && vf != Unsat
	}
	if os.Getenv("GOSMT_LOGDEC") != "" {
		fmt.Fprintf(os.Stderr, "[dec both=%v] %s\n", both, c.String())
	}
	i := len(cx.trace)
	if both {
		alt := make([]rec, i+1)
		copy(alt, cx.trace)
		alt[i] = rec{kind: recBranch, taken: !taken, h: c.h}
		cx.alts = append(cx.alts, alt)
		cx.forks++
	}
	cx.record(rec{kind: recBranch, taken: taken, h: c.h}, cx.lit(c, taken))
	cx.setMemo(c, taken)
	return taken
}

// assume constrains the path; aborts it when the constraint is infeasible.
func (cx *pathCtx) assume(c *Term) {
	if c.op == OpConst {
		if c.isFalse() {
			cx.abort("assume", "")
		}
		return
	}
	if cx.concrete != nil {
		if c.Eval(cx.concrete, map[*Term]*big.Int{}).Sign() == 0 {
			cx.abort("assume", "")
		}
		return
	}
	if v, ok := cx.memo[c]; ok {
		if !v {
			cx.abort("assume", "")
		}
		return
	}
	if v, ok := cx.rangeDecide(c); ok {
		if !v {
			cx.abort("assume", "")
		}
		return
	}
	if r, ok := cx.nextPrefix(recAssume, c.h); ok {
		cx.record(r, c)
		cx.setMemo(c, true)
		return
	}
	if cx.model != nil && cx.evalModel(c) {
		// the current model already satisfies c: feasible without a query
	} else {
		v := cx.check(c, false, &cx.qFeas)
		if v == Unsat {
			cx.abort("assume", "")
		}
		if v == Unknown {
			cx.unknown++
		}
		cx.model = nil
	}
	cx.record(rec{kind: recAssume, taken: true, h: c.h}, c)
	cx.setMemo(c, true)
}

func hexVal(v *big.Int) string { return "0x" + v.Text(16) }

func (cx *pathCtx) valuation(m map[string]*big.Int) map[string]string {
	out := map[string]string{}
	for _, n := range cx.varOrder {
		if v, ok := m[n]; ok {
			out[n] = hexVal(v)
		} else {
			out[n] = "0x0"
		}
	}
	return out
}

func (cx *pathCtx) choiceString() string { return strings.Join(cx.choices, " ") }

func (cx *pathCtx) reportViolation(id, kind, detail string, m map[string]*big.Int) {
	cx.viol = append(cx.viol, Violation{Harness: cx.ex.res.Harness, AssertID: id, Kind: kind, Detail: detail,
		Valuation: cx.valuation(m), Choices: cx.choiceString(), Signature: cx.ex.res.Harness + "|" + id + "|" + cx.choiceString()})
}

// assertProp checks the property c at this point of the path.
func (cx *pathCtx) assertProp(c *Term, id string) {
	cx.asserts++
	if cx.concrete != nil {
		if c.Eval(cx.concrete, map[*Term]*big.Int{}).Sign() == 0 {
			cx.reportViolation(id, "assert", "concrete replay", cx.concrete)
		}
		return
	}
	if c.op == OpConst {
		if _, ok := cx.nextPrefix(recAssert, 1); ok {
			cx.record(rec{kind: recAssert, h: 1}, nil)
			if c.isFalse() {
				cx.abort("assert-false", id)
			}
			return
		}
		cx.record(rec{kind: recAssert, h: 1}, nil)
		if c.isTrue() {
			cx.aConc++
			return
		}
		cx.qAssert++
		if cx.ensureModel() {
			cx.reportViolation(id, "assert", "concretely false on this path", cx.model)
		} else {
			cx.aUnk++
		}
		cx.abort("assert-false", id)
	}
	if _, ok := cx.nextPrefix(recAssert, c.h); ok {
		if v, ok := cx.memo[c]; ok {
			cx.record(rec{kind: recAssert, h: c.h}, nil)
			if !v {
				cx.abort("assert-false", id)
			}
			return
		}
		cx.record(rec{kind: recAssert, h: c.h}, c)
		cx.setMemo(c, true)
		return
	}
	if v, ok := cx.memo[c]; ok {
		cx.record(rec{kind: recAssert, h: c.h}, nil)
		if v {
			cx.aSym++ // implied by the path condition already
			return
		}
		cx.qAssert++
		if cx.ensureModel() {
			cx.reportViolation(id, "assert", "false on every valuation of this path", cx.model)
		} else {
			cx.aUnk++
		}
		cx.abort("assert-false", id)
	}
	var v Verdict
	if cx.model != nil && !cx.evalModel(c) && len(cx.alt) == 0 {
		// the current model of the path condition falsifies c
		v = Sat
		cx.reportViolation(id, "assert", "", cx.model)
	} else {
		v = cx.check(c, true, &cx.qAssert)
		if len(cx.alt) > 0 {
			script := cx.s.Script(c, true)
			for _, a := range cx.alt {
				cx.qCross++
				if av := a.OneShot(script); av != v {
					cx.crossDis++
				}
			}
		}
		switch v {
		case Unsat:
			cx.aSym++
		case Unknown:
			cx.aUnk++
			if cx.cfg.DebugAborts {
				fmt.Fprintf(os.Stderr, "[unknown assert] %s: %s\n", id, c.String())
			}
		case Sat:
			m, ok := cx.s.Model(c, true)
			cx.qAssert++
			if !ok {
				cx.aUnk++
			} else {
				cx.reportViolation(id, "assert", "", m)
			}
		}
	}
	// continue under the assumption that the property holds
	if v != Unsat {
		if cx.model == nil || !cx.evalModel(c) {
			cx.model = nil
			if cx.check(c, false, &cx.qFeas) == Unsat {
				cx.record(rec{kind: recAssert, h: c.h}, nil)
				cx.abort("assert-false", id)
			}
		}
	}
	cx.record(rec{kind: recAssert, h: c.h}, c)
	cx.setMemo(c, true)
}

// value of a term in some model of the current path condition
func (cx *pathCtx) modelValue(x *Term) (*big.Int, bool) {
	cx.qConc++
	cx.s.define(x)
	cx.s.raw("(check-sat)")
	t0 := time.Now()
	v := cx.s.readVerdict()
	cx.s.Time += time.Since(t0)
	cx.s.Queries++
	if v != Sat {
		return nil, false
	}
	cx.s.raw("(get-value (" + x.ref() + "))")
	txt, err := cx.s.readSexp()
	if err != nil || strings.Contains(txt, "(error") {
		return nil, false
	}
	toks := tokenize(txt)
	// ((ref value))
	for i := 0; i < len(toks); i++ {
		a := toks[i]
		switch {
		case strings.HasPrefix(a, "#x"):
			r, _ := new(big.Int).SetString(a[2:], 16)
			return r, true
		case strings.HasPrefix(a, "#b"):
			r, _ := new(big.Int).SetString(a[2:], 2)
			return r, true
		case strings.HasPrefix(a, "bv") && i > 0 && toks[i-1] == "_":
			r, ok := new(big.Int).SetString(a[2:], 10)
			if ok {
				return r, true
			}
		}
	}
	return nil, false
}

// concretize turns a symbolic integer into a concrete one by forking over
// its feasible values (at most KConc of them).
func (cx *pathCtx) concretize(x *Term) *big.Int {
	if x.op == OpConst {
		return x.c
	}
	if cx.concrete != nil {
		return x.Eval(cx.concrete, map[*Term]*big.Int{})
	}
	for n := 0; ; n++ {
		if n > cx.cfg.KConc {
			cx.abort("unbounded-index", x.String())
		}
		if r, ok := cx.nextPrefix(recPick, 0); ok {
			eq := cx.f.Cmp(OpEq, x, cx.f.ConstU(r.val, x.w))
			if eq.op != OpConst {
				cx.record(r, cx.lit(eq, r.taken))
				cx.setMemo(eq, r.taken)
			} else {
				cx.record(r, nil)
			}
			if r.taken {
				return new(big.Int).SetUint64(r.val)
			}
			continue
		}
		if !cx.ensureModel() {
			cx.abort("infeasible", "concretize")
		}
		v := x.Eval(cx.model, map[*Term]*big.Int{})
		if !v.IsUint64() {
			cx.unsupported("concretize >64 bit")
		}
		eq := cx.f.Cmp(OpEq, x, cx.f.Const(v, x.w))
		i := len(cx.trace)
		if eq.op != OpConst && cx.check(eq, true, &cx.qConc) != Unsat {
			alt := make([]rec, i+1)
			copy(alt, cx.trace)
			alt[i] = rec{kind: recPick, taken: false, val: v.Uint64()}
			cx.alts = append(cx.alts, alt)
			cx.forks++
		}
		if eq.op != OpConst {
			cx.record(rec{kind: recPick, taken: true, val: v.Uint64()}, eq)
			cx.setMemo(eq, true)
		} else {
			cx.record(rec{kind: recPick, taken: true, val: v.Uint64()}, nil)
		}
		return v
	}
}

// choose implements IntRange: a fresh selector variable with n options.
func (cx *pathCtx) choose(name string, lo, hi int) int {
	if hi < lo {
		cx.abort("assume", "empty IntRange "+name)
	}
	x := cx.declareNew(name, 64)
	var idx int
	if cx.concrete != nil {
		v := toSigned(x.Eval(cx.concrete, map[*Term]*big.Int{}), 64).Int64()
		if v < int64(lo) || v > int64(hi) {
			cx.abort("assume", "IntRange "+name)
		}
		cx.choices = append(cx.choices, fmt.Sprintf("%s=%d", name, v))
		return int(v)
	}
	var r rec
	if pr, ok := cx.nextPrefix(recChoice, 0); ok {
		idx = int(pr.val)
		r = pr
	} else {
		i := len(cx.trace)
		for k := hi - lo; k >= 1; k-- {
			alt := make([]rec, i+1)
			copy(alt, cx.trace)
			alt[i] = rec{kind: recChoice, val: uint64(k)}
			cx.alts = append(cx.alts, alt)
			cx.forks++
		}
		idx = 0
		r = rec{kind: recChoice, val: 0}
	}
	v := lo + idx
	cx.record(r, cx.f.Cmp(OpEq, x, cx.f.ConstI(int64(v), 64)))
	if cx.model != nil {
		// the selector is fresh: extending the model keeps it a model
		cx.model[name] = norm(big.NewInt(int64(v)), 64)
	}
	cx.choices = append(cx.choices, fmt.Sprintf("%s=%d", name, v))
	return v
}

// declareNew is used by the harness API: a name may be introduced only once
// per path (silent aliasing of two harness variables would weaken claims).
func (cx *pathCtx) declareNew(name string, w int) *Term {
	if _, ok := cx.varTerm[name]; ok {
		cx.abort("engine-error", "harness variable "+name+" declared twice")
	}
	return cx.declare(name, w)
}

func (cx *pathCtx) declare(name string, w int) *Term {
	if t, ok := cx.varTerm[name]; ok {
		if t.w != w {
			cx.abort("engine-error", "variable "+name+" redeclared with another width")
		}
		return t
	}
	for _, ch := range name {
		if !(ch == '_' || ch == '.' || (ch >= '0' && ch <= '9') || (ch >= 'a' && ch <= 'z') || (ch >= 'A' && ch <= 'Z')) {
			cx.abort("engine-error", "bad variable name "+name)
		}
	}
	t := cx.f.Var(name, w)
	cx.varTerm[name] = t
	cx.varOrder = append(cx.varOrder, name)
	if cx.s != nil {
		cx.s.define(t)
	}
	return t
}

// freshVar makes an engine-generated nondeterministic value (stubs).
func (cx *pathCtx) freshVar(prefix string, w int) *Term {
	cx.fresh++
	return cx.declare(fmt.Sprintf("nd_%s_%d", prefix, cx.fresh), w)
}

func (cx *pathCtx) reachLabel(label string) {
	cx.reach = append(cx.reach, label)
	if cx.concrete != nil {
		return
	}
	cx.ex.mu.Lock()
	seen := cx.ex.vacSeen[label]
	cx.ex.vacSeen[label] = true
	cx.ex.mu.Unlock()
	if !seen {
		// vacuity witness: the path condition here must be satisfiable
		if cx.check(nil, false, &cx.qVac) != Sat {
			cx.ex.mu.Lock()
			cx.ex.vacSeen[label] = false
			cx.ex.mu.Unlock()
			cx.abort("engine-error", "path condition not sat at Reach("+label+")")
		}
	}
}

// ---- merging results -----------------------------------------------------

func (e *explorer) merge(cx *pathCtx, outcome string, completed bool) {
	e.mu.Lock()
	defer e.mu.Unlock()
	r := e.res
	r.Paths++
	if completed {
		r.PathsCompleted++
	} else if outcome == "assume" || outcome == "infeasible" {
		r.Pruned++
	} else {
		r.Aborts[outcome]++
	}
	newDec := len(cx.trace) - len(cx.prefix)
	if newDec < 0 {
		newDec = 0
	}
	r.Decisions += newDec
	r.Forks += cx.forks
	r.QFeas += cx.qFeas
	r.QAssert += cx.qAssert
	r.QVacuity += cx.qVac
	r.QConc += cx.qConc
	r.QCross += cx.qCross
	r.CrossDisagree += cx.crossDis
	r.MemoHits += cx.memoHits
	r.AssertsSymbolic += cx.aSym
	r.AssertsConcrete += cx.aConc
	r.AssertsUnknown += cx.aUnk
	r.Unknown += cx.unknown
	r.Steps += int64(cx.steps)
	if len(cx.trace) > r.MaxDecisionDepth {
		r.MaxDecisionDepth = len(cx.trace)
	}
	cx.qFeas, cx.qAssert, cx.qVac, cx.qConc, cx.qCross, cx.crossDis, cx.memoHits = 0, 0, 0, 0, 0, 0, 0
	cx.aSym, cx.aConc, cx.aUnk, cx.unknown = 0, 0, 0, 0
	for _, v := range cx.viol {
		if !e.sigSeen[v.Signature] {
			e.sigSeen[v.Signature] = true
			for ki, k := range e.cfg.Known {
				if k.matches(v) {
					v.Known = true
					e.knownCount[ki]++
					break
				}
			}
			if v.Known {
				r.KnownHits++
				if r.KnownHits <= 6 {
					r.Violations = append(r.Violations, v) // a few samples for replay
				}
				continue
			}
			e.newViol++
			r.Violations = append(r.Violations, v)
		}
	}
	if e.cfg.StopOnViol > 0 && e.newViol >= e.cfg.StopOnViol {
		e.stop = true
		e.cond.Broadcast()
	}
	if completed {
		for _, l := range cx.reach {
			r.Reach[l]++
		}
	}
	for f := range cx.funcs {
		e.funcs[f] = true
		delete(cx.funcs, f)
	}
	for f := range cx.intr {
		e.intr[f] = true
		delete(cx.intr, f)
	}
	if len(r.Samples) < 6 || (r.Paths%997 == 0 && len(r.Samples) < 12) {
		r.Samples = append(r.Samples, PathSample{Choices: cx.choiceString(), Decisions: len(cx.trace), Forks: cx.forks, Outcome: outcome, Asserts: cx.asserts})
	}
	if r.Paths >= e.cfg.MaxPaths && !e.stop {
		e.stop = true
		r.Inconclusive = append(r.Inconclusive, fmt.Sprintf("max-paths %d reached", e.cfg.MaxPaths))
		e.cond.Broadcast()
	}
}

func (e *explorer) wantValidation() bool {
	e.mu.Lock()
	defer e.mu.Unlock()
	// reservoir-free: take the first few and then every k-th path
	if e.nVal >= e.cfg.Validate {
		return false
	}
	p := e.res.Paths
	if p < e.cfg.Validate/2 || p%17 == 0 {
		e.nVal++
		return true
	}
	return false
}

func (e *explorer) addValidation(v ValidationCase) {
	e.mu.Lock()
	e.res.Validations = append(e.res.Validations, v)
	e.mu.Unlock()
}

func (e *explorer) finish(t0 time.Time, solvers []*Solver) *Result {
	r := e.res
	r.WallSec = time.Since(t0).Seconds()
	for _, s := range solvers {
		r.SolverSec += s.Time.Seconds()
		r.SolverErrors += s.Errors
		r.ModelSec += s.ModelTime.Seconds()
		r.Models += s.Models
	}
	for f := range e.funcs {
		r.Funcs = append(r.Funcs, f)
	}
	sort.Strings(r.Funcs)
	for f := range e.intr {
		r.Intrinsics = append(r.Intrinsics, f)
	}
	sort.Strings(r.Intrinsics)
	r.Exhausted = !e.stop && len(e.work) == 0
	if e.newViol > 0 && e.stop {
		// stopped early because of violations: exploration is not exhaustive
		r.Exhausted = false
	}
	for k, n := range r.Aborts {
		if n > 0 && k != "assert-false" {
			r.Inconclusive = append(r.Inconclusive, fmt.Sprintf("%s x%d", k, n))
		}
	}
	if r.Unknown > 0 {
		r.Inconclusive = append(r.Inconclusive, fmt.Sprintf("solver unknown on %d feasibility queries", r.Unknown))
	}
	if r.AssertsUnknown > 0 {
		r.Inconclusive = append(r.Inconclusive, fmt.Sprintf("solver unknown on %d assertion queries", r.AssertsUnknown))
	}
	if r.SolverErrors > 0 {
		r.Inconclusive = append(r.Inconclusive, fmt.Sprintf("%d solver error lines", r.SolverErrors))
	}
	if r.CrossDisagree > 0 {
		r.Inconclusive = append(r.Inconclusive, fmt.Sprintf("%d cross-solver disagreements", r.CrossDisagree))
	}
	if r.PathsCompleted == 0 && len(r.Violations) == 0 {
		r.Inconclusive = append(r.Inconclusive, "no path completed (vacuous)")
	}
	sort.Strings(r.Inconclusive)
	return r
}

func (cx *pathCtx) stackString() string {
	var sb strings.Builder
	for i := len(cx.stack) - 1; i >= 0 && i > len(cx.stack)-25; i-- {
		fr := cx.stack[i]
		pos := ""
		if fr.block != nil {
			for _, in := range fr.block.Instrs {
				if in.Pos().IsValid() {
					pos = fr.fn.Prog.Fset.Position(in.Pos()).String()
					break
				}
			}
		}
		fmt.Fprintf(&sb, "    at %s (%s)\n", fr.fn.String(), pos)
	}
	return sb.String()
}
