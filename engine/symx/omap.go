package symx

import (
	"go/types"
)

// omap is the interpreter's only map representation: an insertion-ordered
// association list with a hash index for fully concrete keys. Keys that
// contain symbolic data are compared with every candidate entry by a
// symbolic equality that is decided on the current path (forking if both
// outcomes are feasible).
//
// Iteration order is insertion order (Go's is unspecified): this keeps
// re-execution deterministic and is listed as an assumption of every claim.

type mentry struct {
	key     value
	val     value
	deleted bool
	symKey  bool
}

type omap struct {
	keyType types.Type
	entries []*mentry
	index   map[int][]*mentry // hash -> live entries with concrete keys
	nsym    int               // live entries with symbolic keys
	length  int
}

func makeMap(kt types.Type, reserve int64) value {
	return &omap{keyType: kt, index: map[int][]*mentry{}}
}

func (m *omap) len() int {
	if m == nil {
		return 0
	}
	return m.length
}

func keyHash(kt types.Type, k value) int {
	return hash(kt, kt, k)
}

// find returns the entry for key k, or nil.
func (m *omap) find(cx *pathCtx, k value) *mentry {
	if m == nil {
		return nil
	}
	if !hasSym(k) {
		h := keyHash(m.keyType, k)
		for _, e := range m.index[h] {
			if !e.deleted && equals(m.keyType, k, e.key) {
				return e
			}
		}
		if m.nsym == 0 {
			return nil
		}
		for _, e := range m.entries {
			if e.deleted || !e.symKey {
				continue
			}
			if cx.decide(cx.eqTerm(m.keyType, k, e.key)) {
				return e
			}
		}
		return nil
	}
	for _, e := range m.entries {
		if e.deleted {
			continue
		}
		if cx.decide(cx.eqTerm(m.keyType, k, e.key)) {
			return e
		}
	}
	return nil
}

func (m *omap) lookup(cx *pathCtx, k value) (value, bool) {
	if e := m.find(cx, k); e != nil {
		return e.val, true
	}
	return nil, false
}

func (m *omap) insert(cx *pathCtx, k, v value) {
	if e := m.find(cx, k); e != nil {
		e.val = v
		return
	}
	e := &mentry{key: k, val: v, symKey: hasSym(k)}
	m.entries = append(m.entries, e)
	m.length++
	if e.symKey {
		m.nsym++
	} else {
		h := keyHash(m.keyType, k)
		m.index[h] = append(m.index[h], e)
	}
}

func (m *omap) delete(cx *pathCtx, k value) {
	e := m.find(cx, k)
	if e == nil {
		return
	}
	e.deleted = true
	m.length--
	if e.symKey {
		m.nsym--
	} else {
		h := keyHash(m.keyType, e.key)
		b := m.index[h]
		for i, x := range b {
			if x == e {
				m.index[h] = append(b[:i:i], b[i+1:]...)
				break
			}
		}
	}
	// compact occasionally
	if len(m.entries) > 32 && m.length*2 < len(m.entries) {
		live := m.entries[:0:0]
		for _, x := range m.entries {
			if !x.deleted {
				live = append(live, x)
			}
		}
		m.entries = live
	}
}

func (m *omap) clear() {
	if m == nil {
		return
	}
	for _, e := range m.entries {
		e.deleted = true
	}
	m.entries = nil
	m.index = map[int][]*mentry{}
	m.nsym = 0
	m.length = 0
}

// omapIter iterates over a snapshot of the entries in insertion order;
// entries deleted during iteration are skipped, entries added are not
// visited (both permitted by the Go specification).
type omapIter struct {
	snap []*mentry
	i    int
}

func (m *omap) iter(rot int) *omapIter {
	if m == nil {
		return &omapIter{}
	}
	snap := make([]*mentry, 0, m.length)
	for _, e := range m.entries {
		if !e.deleted {
			snap = append(snap, e)
		}
	}
	if rot > 0 && len(snap) > 1 {
		r := rot % len(snap)
		snap = append(append([]*mentry{}, snap[r:]...), snap[:r]...)
	}
	return &omapIter{snap: snap}
}

func (it *omapIter) next() tuple {
	for it.i < len(it.snap) {
		e := it.snap[it.i]
		it.i++
		if e.deleted {
			continue
		}
		return tuple{true, e.key, e.val}
	}
	return tuple{false, nil, nil}
}
