package symx

import (
	"fmt"
	"go/types"
	"sort"
	"strings"
)

// Native transactional table model standing in for hashicorp/go-memdb.
//
// Contract assumed: go-memdb implements snapshot-isolated transactions over
// the indexes declared in the schema. The index definitions are read from
// the interpreted schema value built by the real
// server/backend/database/memory/indexes.go, so the real schema is in the
// loop. Rows are the interpreter values (pointers) that the program
// inserted, exactly like go-memdb stores object pointers.

const memdbPkg = "github.com/hashicorp/go-memdb"

type mRow struct {
	obj iface
	seq int // insertion order (stand-in for radix order among equal keys)
}

type mTable struct {
	rows []*mRow
}

type memDB struct {
	schema value // *DBSchema (interpreter pointer)
	tables map[string]*mTable
	seq    int
}

type memTxn struct {
	db     *memDB
	write  bool
	tables map[string]*mTable // private copies (copy on first write)
	done   bool
}

type memIter struct {
	rows []*mRow
	i    int
}

func (db *memDB) table(name string) *mTable {
	t, ok := db.tables[name]
	if !ok {
		t = &mTable{}
		db.tables[name] = t
	}
	return t
}

func (tx *memTxn) readTable(name string) *mTable {
	if t, ok := tx.tables[name]; ok {
		return t
	}
	return tx.db.table(name)
}

func (tx *memTxn) writeTable(name string) *mTable {
	if t, ok := tx.tables[name]; ok {
		return t
	}
	src := tx.db.table(name)
	t := &mTable{rows: append([]*mRow{}, src.rows...)}
	tx.tables[name] = t
	return t
}

// ---- schema access -----------------------------------------------------------

func derefStruct(v value) structure {
	p, ok := v.(*value)
	if !ok || p == nil {
		panic(pathAbort{"engine-error", "memdb: nil/non-pointer schema value"})
	}
	return (*p).(structure)
}

// fieldByName returns field name of the struct pointed to by obj.
func fieldByName(cx *pathCtx, obj iface, name string) (value, types.Type) {
	pt, ok := obj.t.Underlying().(*types.Pointer)
	if !ok {
		cx.unsupported("memdb: object is not a pointer: " + obj.t.String())
	}
	st, ok := pt.Elem().Underlying().(*types.Struct)
	if !ok {
		cx.unsupported("memdb: object is not a struct pointer")
	}
	p := obj.v.(*value)
	if p == nil {
		cx.unsupported("memdb: nil object")
	}
	s := (*p).(structure)
	for i := 0; i < st.NumFields(); i++ {
		if st.Field(i).Name() == name {
			return s[i], st.Field(i).Type()
		}
	}
	cx.abort("engine-error", "memdb: no field "+name+" in "+obj.t.String())
	return nil, nil
}

type mIndex struct {
	name   string
	unique bool
	parts  []mIndexPart
}

type mIndexPart struct {
	kind  string // string | int | bool | time
	field string
}

func (db *memDB) index(cx *pathCtx, table, index string) *mIndex {
	dbs := derefStruct(db.schema) // DBSchema{Tables map[string]*TableSchema}
	tables := dbs[0].(*omap)
	tv, ok := tables.lookup(cx, table)
	if !ok {
		cx.abort("engine-error", "memdb: invalid table "+table)
	}
	ts := derefStruct(tv) // TableSchema{Name, Indexes}
	iv, ok := ts[1].(*omap).lookup(cx, index)
	if !ok {
		cx.abort("engine-error", "memdb: invalid index "+index+" of "+table)
	}
	is := derefStruct(iv) // IndexSchema{Name, AllowMissing, Unique, Indexer}
	idx := &mIndex{name: index}
	idx.unique, _ = is[2].(bool)
	idx.parts = indexerParts(cx, is[3].(iface))
	return idx
}

func indexerParts(cx *pathCtx, ix iface) []mIndexPart {
	tn := ix.t.String()
	s := derefStruct(ix.v)
	switch {
	case strings.HasSuffix(tn, "go-memdb.StringFieldIndex"):
		return []mIndexPart{{kind: "string", field: s[0].(string)}}
	case strings.HasSuffix(tn, "go-memdb.IntFieldIndex"), strings.HasSuffix(tn, "go-memdb.UintFieldIndex"):
		return []mIndexPart{{kind: "int", field: s[0].(string)}}
	case strings.HasSuffix(tn, "go-memdb.BoolFieldIndex"):
		return []mIndexPart{{kind: "bool", field: s[0].(string)}}
	case strings.HasSuffix(tn, "go-memdb.TimeFieldIndex"):
		return []mIndexPart{{kind: "time", field: s[0].(string)}}
	case strings.HasSuffix(tn, "go-memdb.CompoundIndex"):
		var out []mIndexPart
		for _, sub := range s[0].([]value) {
			out = append(out, indexerParts(cx, sub.(iface))...)
		}
		return out
	}
	cx.unsupported("memdb indexer " + tn)
	return nil
}

// rowKey extracts the index key of a row; ok=false if a string part is empty.
func rowKey(cx *pathCtx, idx *mIndex, obj iface) ([]value, bool) {
	key := make([]value, len(idx.parts))
	for i, p := range idx.parts {
		fv, _ := fieldByName(cx, obj, p.field)
		switch p.kind {
		case "string":
			if s, ok := fv.(string); ok && s == "" {
				return nil, false
			}
			key[i] = fv
		case "time":
			key[i] = timeKey(fv)
		default:
			key[i] = fv
		}
	}
	return key, true
}

// timeKey orders time.Time values by their ext field (our time.Now stub
// produces wall==0 times whose ext is the instant); the zero time sorts first.
func timeKey(v value) value {
	if s, ok := v.(structure); ok && len(s) == 3 {
		return s[1]
	}
	return int64(0)
}

func argKey(cx *pathCtx, idx *mIndex, args []value) []value {
	if len(args) > len(idx.parts) {
		cx.abort("engine-error", "memdb: too many index arguments")
	}
	key := make([]value, len(args))
	for i, a := range args {
		v := a
		if itf, ok := a.(iface); ok {
			v = itf.v
		}
		if idx.parts[i].kind == "time" {
			v = timeKey(v)
		}
		key[i] = v
	}
	return key
}

// partEq / partLess compare key components (symbolic-aware).
func partEq(cx *pathCtx, a, b value) bool {
	if ka, ok := intKind(a); ok {
		if kb, ok2 := intKind(b); ok2 && ka != kb {
			// index arguments may use another integer type than the field
			return asInt64(a) == asInt64(b)
		}
	}
	if sa, ok := a.(sym); ok {
		if _, ok2 := b.(sym); !ok2 {
			if _, isInt := intKind(b); isInt {
				b = cx.fromTerm(cx.f.ConstI(asInt64(b), sa.t.w), sa.k)
			}
		}
	} else if sb, ok := b.(sym); ok {
		if _, isInt := intKind(a); isInt {
			a = cx.fromTerm(cx.f.ConstI(asInt64(a), sb.t.w), sb.k)
		}
	}
	return cx.decide(cx.eqTerm(nil, a, b))
}

func partLess(cx *pathCtx, a, b value) bool {
	switch x := a.(type) {
	case string:
		y, ok := b.(string)
		if !ok {
			cx.unsupported("memdb: ordering of symbolic string keys")
		}
		return x < y
	case *symstr:
		cx.unsupported("memdb: ordering of symbolic string keys")
	case bool:
		return !x && b.(bool)
	}
	if _, ok := a.(sym); !ok {
		if _, ok2 := b.(sym); !ok2 {
			return asInt64(a) < asInt64(b)
		}
	}
	// symbolic integers: bring both to int64 terms
	ta := cx.int64Term(a)
	tb := cx.int64Term(b)
	return cx.decide(cx.f.Cmp(OpSLt, ta, tb))
}

func (cx *pathCtx) int64Term(v value) *Term {
	if s, ok := v.(sym); ok {
		_, signed := kindWidth(s.k)
		if signed {
			return cx.f.SExt(s.t, 64)
		}
		return cx.f.ZExt(s.t, 64)
	}
	return cx.f.ConstI(asInt64(v), 64)
}

// keyCmp compares the first n components: -1, 0, 1.
func keyCmp(cx *pathCtx, a, b []value, n int) int {
	for i := 0; i < n; i++ {
		if partEq(cx, a[i], b[i]) {
			continue
		}
		if partLess(cx, a[i], b[i]) {
			return -1
		}
		return 1
	}
	return 0
}

// keyEq reports whether the first n components are equal (no ordering of
// symbolic strings is needed for equality lookups).
func keyEq(cx *pathCtx, a, b []value, n int) bool {
	for i := 0; i < n; i++ {
		if !partEq(cx, a[i], b[i]) {
			return false
		}
	}
	return true
}

type keyedRow struct {
	row *mRow
	key []value
}

// sortedRows returns the rows of a table that have a value for idx, in
// index order (insertion order among equal keys of non-unique indexes).
func sortedRows(cx *pathCtx, t *mTable, idx *mIndex) []keyedRow {
	var rows []keyedRow
	for _, r := range t.rows {
		k, ok := rowKey(cx, idx, r.obj)
		if !ok {
			continue
		}
		rows = append(rows, keyedRow{r, k})
	}
	// insertion sort driven by symbolic-aware comparison (deterministic)
	for i := 1; i < len(rows); i++ {
		for j := i; j > 0; j-- {
			c := keyCmp(cx, rows[j].key, rows[j-1].key, len(idx.parts))
			if c < 0 || (c == 0 && rows[j].row.seq < rows[j-1].row.seq && false) {
				rows[j], rows[j-1] = rows[j-1], rows[j]
			} else {
				break
			}
		}
	}
	return rows
}

// ---- intrinsics -----------------------------------------------------------------

func memTxnOf(fr *frame, v value) *memTxn {
	p, ok := v.(*value)
	if !ok || p == nil {
		fr.i.cx.abort("engine-error", "memdb: nil transaction")
	}
	tx, ok := (*p).(*memTxn)
	if !ok {
		fr.i.cx.abort("engine-error", "memdb: not a transaction")
	}
	return tx
}

func variadicArgs(v value) []value {
	if v == nil {
		return nil
	}
	return v.([]value)
}

func (i *interpreter) memErr(msg string) value { return i.newError(msg) }

func init() {
	p := memdbPkg + "."
	ext := map[string]externalFn{
		p + "NewMemDB": func(fr *frame, args []value) value {
			var h value = &memDB{schema: args[0], tables: map[string]*mTable{}}
			return tuple{&h, iface{}}
		},
		"(*" + p + "MemDB).Txn": func(fr *frame, args []value) value {
			db := (*args[0].(*value)).(*memDB)
			var h value = &memTxn{db: db, write: fr.i.cx.truth(args[1]), tables: map[string]*mTable{}}
			return &h
		},
		"(*" + p + "Txn).Abort": func(fr *frame, args []value) value {
			tx := memTxnOf(fr, args[0])
			tx.done = true
			return nil
		},
		"(*" + p + "Txn).Commit": func(fr *frame, args []value) value {
			tx := memTxnOf(fr, args[0])
			if tx.done {
				return nil
			}
			tx.done = true
			if tx.write {
				for name, t := range tx.tables {
					tx.db.tables[name] = t
				}
			}
			return nil
		},
		"(*" + p + "Txn).Insert": func(fr *frame, args []value) value {
			cx := fr.i.cx
			tx := memTxnOf(fr, args[0])
			if !tx.write {
				return fr.i.memErr("cannot insert in read-only transaction")
			}
			table := args[1].(string)
			obj := args[2].(iface)
			idIdx := tx.db.index(cx, table, "id")
			idKey, ok := rowKey(cx, idIdx, obj)
			if !ok {
				return fr.i.memErr("object missing primary index")
			}
			// every non-AllowMissing index needs a value (all yorkie indexes are)
			dbs := derefStruct(tx.db.schema)
			tv, _ := dbs[0].(*omap).lookup(cx, table)
			ts := derefStruct(tv)
			for _, e := range ts[1].(*omap).entries {
				if e.deleted {
					continue
				}
				is := derefStruct(e.val)
				allowMissing, _ := is[1].(bool)
				idx := &mIndex{name: e.key.(string), parts: indexerParts(cx, is[3].(iface))}
				if _, ok := rowKey(cx, idx, obj); !ok && !allowMissing {
					return fr.i.memErr("missing value for index '" + idx.name + "'")
				}
			}
			t := tx.writeTable(table)
			for k, r := range t.rows {
				ek, _ := rowKey(cx, idIdx, r.obj)
				if keyCmp(cx, ek, idKey, 1) == 0 {
					tx.db.seq++
					t.rows[k] = &mRow{obj: obj, seq: r.seq}
					return iface{}
				}
			}
			tx.db.seq++
			t.rows = append(t.rows, &mRow{obj: obj, seq: tx.db.seq})
			return iface{}
		},
		"(*" + p + "Txn).Delete": func(fr *frame, args []value) value {
			cx := fr.i.cx
			tx := memTxnOf(fr, args[0])
			if !tx.write {
				return fr.i.memErr("cannot delete in read-only transaction")
			}
			table := args[1].(string)
			obj := args[2].(iface)
			idIdx := tx.db.index(cx, table, "id")
			idKey, ok := rowKey(cx, idIdx, obj)
			if !ok {
				return fr.i.memErr("object missing primary index")
			}
			t := tx.writeTable(table)
			for k, r := range t.rows {
				ek, _ := rowKey(cx, idIdx, r.obj)
				if keyCmp(cx, ek, idKey, 1) == 0 {
					t.rows = append(t.rows[:k:k], t.rows[k+1:]...)
					return iface{}
				}
			}
			return fr.i.memErr("not found")
		},
		"(*" + p + "Txn).DeleteAll": func(fr *frame, args []value) value {
			cx := fr.i.cx
			tx := memTxnOf(fr, args[0])
			if !tx.write {
				return tuple{0, fr.i.memErr("cannot delete in read-only transaction")}
			}
			table := args[1].(string)
			idx := tx.db.index(cx, table, args[2].(string))
			key := argKey(cx, idx, variadicArgs(args[3]))
			t := tx.writeTable(table)
			var keep []*mRow
			n := 0
			for _, r := range t.rows {
				rk, ok := rowKey(cx, idx, r.obj)
				if ok && keyCmp(cx, rk, key, len(key)) == 0 {
					n++
					continue
				}
				keep = append(keep, r)
			}
			t.rows = keep
			return tuple{n, iface{}}
		},
		"(*" + p + "Txn).First": func(fr *frame, args []value) value {
			rows := memQuery(fr, args, "get")
			if len(rows) == 0 {
				return tuple{iface{}, iface{}}
			}
			return tuple{rows[0].obj, iface{}}
		},
		"(*" + p + "Txn).Last": func(fr *frame, args []value) value {
			rows := memQuery(fr, args, "get")
			if len(rows) == 0 {
				return tuple{iface{}, iface{}}
			}
			return tuple{rows[len(rows)-1].obj, iface{}}
		},
		"(*" + p + "Txn).Get": func(fr *frame, args []value) value {
			return memIterResult(fr, memQuery(fr, args, "get"))
		},
		"(*" + p + "Txn).LowerBound": func(fr *frame, args []value) value {
			return memIterResult(fr, memQuery(fr, args, "lower"))
		},
		"(*" + p + "Txn).ReverseLowerBound": func(fr *frame, args []value) value {
			return memIterResult(fr, memQuery(fr, args, "rlower"))
		},
		"(*" + p + "memIterModel).Next": nil,
	}
	for k, v := range ext {
		if v != nil {
			externals[k] = v
		}
	}
}

// memQuery evaluates table/index/args under the given mode.
func memQuery(fr *frame, args []value, mode string) []*mRow {
	cx := fr.i.cx
	tx := memTxnOf(fr, args[0])
	table := args[1].(string)
	idx := tx.db.index(cx, table, args[2].(string))
	key := argKey(cx, idx, variadicArgs(args[3]))
	if mode != "get" && len(key) != len(idx.parts) {
		cx.unsupported(fmt.Sprintf("memdb: %s with partial key", mode))
	}
	var out []*mRow
	if mode == "get" {
		// equality lookups need no ordering of the whole table
		var matched []keyedRow
		for _, r := range tx.readTable(table).rows {
			k, ok := rowKey(cx, idx, r.obj)
			if ok && keyEq(cx, k, key, len(key)) {
				matched = append(matched, keyedRow{r, k})
			}
		}
		if len(key) < len(idx.parts) && len(matched) > 1 {
			// prefix lookup: order by the remaining components
			for i := 1; i < len(matched); i++ {
				for j := i; j > 0; j-- {
					c := 0
					for q := len(key); q < len(idx.parts) && c == 0; q++ {
						if !partEq(cx, matched[j].key[q], matched[j-1].key[q]) {
							if partLess(cx, matched[j].key[q], matched[j-1].key[q]) {
								c = -1
							} else {
								c = 1
							}
						}
					}
					if c < 0 {
						matched[j], matched[j-1] = matched[j-1], matched[j]
					} else {
						break
					}
				}
			}
		}
		for _, m := range matched {
			out = append(out, m.row)
		}
		if idx.unique && len(key) == len(idx.parts) && len(out) > 1 {
			// a unique index holds one entry per key: the latest insert wins
			sort.SliceStable(out, func(i, j int) bool { return out[i].seq < out[j].seq })
			out = out[len(out)-1:]
		}
		return out
	}
	rows := sortedRows(cx, tx.readTable(table), idx)
	switch mode {
	case "get":
		for _, r := range rows {
			if keyCmp(cx, r.key, key, len(key)) == 0 {
				out = append(out, r.row)
			}
		}
		if idx.unique && len(key) == len(idx.parts) && len(out) > 1 {
			// a unique index holds one entry per key: the latest insert wins
			sort.SliceStable(out, func(i, j int) bool { return out[i].seq < out[j].seq })
			out = out[len(out)-1:]
		}
	case "lower":
		for _, r := range rows {
			if keyCmp(cx, r.key, key, len(key)) >= 0 {
				out = append(out, r.row)
			}
		}
	case "rlower":
		for i := len(rows) - 1; i >= 0; i-- {
			if keyCmp(cx, rows[i].key, key, len(key)) <= 0 {
				out = append(out, rows[i].row)
			}
		}
	}
	return out
}

// memIterResult wraps rows as a memdb.ResultIterator interface value. The
// dynamic type is the library's *radixIterator so that interface method
// dispatch resolves to names we intercept.
func memIterResult(fr *frame, rows []*mRow) value {
	pkg := fr.i.prog.ImportedPackage(memdbPkg)
	if pkg == nil {
		fr.i.cx.abort("engine-error", "go-memdb not loaded")
	}
	t := types.NewPointer(pkg.Type("radixIterator").Object().Type())
	var h value = &memIter{rows: rows}
	return tuple{iface{t: t, v: &h}, iface{}}
}

func init() {
	externals["(*"+memdbPkg+".radixIterator).Next"] = func(fr *frame, args []value) value {
		it := (*args[0].(*value)).(*memIter)
		if it.i >= len(it.rows) {
			return iface{}
		}
		r := it.rows[it.i]
		it.i++
		return r.obj
	}
	externals["(*"+memdbPkg+".radixIterator).WatchCh"] = func(fr *frame, args []value) value {
		return (chan value)(nil)
	}
}
