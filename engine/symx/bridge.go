package symx

import (
	"fmt"
	"go/types"
	"reflect"
	"runtime"
)

// bridge wraps a native Go function as an intrinsic by converting
// interpreter values to native values according to the native signature.
// Only basic types, strings and slices of them are supported; symbolic
// arguments are concretised for integers and rejected otherwise.
func bridge(fn any) externalFn {
	fv := reflect.ValueOf(fn)
	ft := fv.Type()
	return func(fr *frame, args []value) value {
		cx := fr.i.cx
		cx.bridgeName = runtime.FuncForPC(fv.Pointer()).Name()
		n := ft.NumIn()
		in := make([]reflect.Value, 0, n)
		for i := 0; i < n; i++ {
			pt := ft.In(i)
			if ft.IsVariadic() && i == n-1 {
				sl := toNative(cx, args[i], pt)
				for k := 0; k < sl.Len(); k++ {
					in = append(in, sl.Index(k))
				}
				break
			}
			in = append(in, toNative(cx, args[i], pt))
		}
		out := fv.Call(in)
		switch len(out) {
		case 0:
			return nil
		case 1:
			return fromNative(fr, out[0])
		}
		t := make(tuple, len(out))
		for i := range out {
			t[i] = fromNative(fr, out[i])
		}
		return t
	}
}

func toNative(cx *pathCtx, v value, t reflect.Type) reflect.Value {
	switch t.Kind() {
	case reflect.Bool:
		return reflect.ValueOf(cx.truth(v)).Convert(t)
	case reflect.Int, reflect.Int8, reflect.Int16, reflect.Int32, reflect.Int64:
		return reflect.ValueOf(cx.conc(v)).Convert(t)
	case reflect.Uint, reflect.Uint8, reflect.Uint16, reflect.Uint32, reflect.Uint64, reflect.Uintptr:
		return reflect.ValueOf(uint64(cx.conc(v))).Convert(t)
	case reflect.Float32, reflect.Float64:
		switch f := v.(type) {
		case float32:
			return reflect.ValueOf(f).Convert(t)
		case float64:
			return reflect.ValueOf(f).Convert(t)
		}
	case reflect.String:
		if s, ok := v.(string); ok {
			return reflect.ValueOf(s).Convert(t)
		}
		cx.unsupported("symbolic string passed to native function " + cx.bridgeName)
	case reflect.Slice:
		sl, ok := v.([]value)
		if !ok {
			cx.unsupported(fmt.Sprintf("bridge: %T as slice", v))
		}
		out := reflect.MakeSlice(t, len(sl), len(sl))
		for i, e := range sl {
			out.Index(i).Set(toNative(cx, e, t.Elem()))
		}
		if sl == nil {
			return reflect.Zero(t)
		}
		return out
	}
	cx.unsupported(fmt.Sprintf("bridge: cannot convert %T to %s", v, t))
	return reflect.Value{}
}

var errorReflectType = reflect.TypeOf((*error)(nil)).Elem()

func fromNative(fr *frame, v reflect.Value) value {
	t := v.Type()
	if t == errorReflectType {
		if v.IsNil() {
			return iface{}
		}
		return fr.i.newError(v.Interface().(error).Error())
	}
	switch t.Kind() {
	case reflect.Bool:
		return v.Bool()
	case reflect.Int:
		return int(v.Int())
	case reflect.Int8:
		return int8(v.Int())
	case reflect.Int16:
		return int16(v.Int())
	case reflect.Int32:
		return int32(v.Int())
	case reflect.Int64:
		return v.Int()
	case reflect.Uint:
		return uint(v.Uint())
	case reflect.Uint8:
		return uint8(v.Uint())
	case reflect.Uint16:
		return uint16(v.Uint())
	case reflect.Uint32:
		return uint32(v.Uint())
	case reflect.Uint64:
		return v.Uint()
	case reflect.Uintptr:
		return uintptr(v.Uint())
	case reflect.Float32:
		return float32(v.Float())
	case reflect.Float64:
		return v.Float()
	case reflect.String:
		return v.String()
	case reflect.Slice:
		if v.IsNil() {
			return []value(nil)
		}
		out := make([]value, v.Len())
		for i := range out {
			out[i] = fromNative(fr, v.Index(i))
		}
		return out
	}
	panic(fmt.Sprintf("bridge: cannot convert native %s", t))
}

// newError builds an interpreter value of type *errors.errorString.
func (i *interpreter) newError(msg value) value {
	pkg := i.prog.ImportedPackage("errors")
	if pkg == nil {
		panic("errors package not loaded")
	}
	t := pkg.Type("errorString").Object().Type()
	var s value = structure{msg}
	return iface{t: types.NewPointer(t), v: &s}
}
