package symx

import (
	"fmt"
	"go/token"
	"go/types"
	"math/big"
)

// sym is a symbolic integer of Go basic kind k (which fixes width and
// signedness). symb is a symbolic bool.
type sym struct {
	t *Term
	k types.BasicKind
}

type symb struct {
	t *Term
}

func kindWidth(k types.BasicKind) (w int, signed bool) {
	switch k {
	case types.Int, types.Int64:
		return 64, true
	case types.Int8:
		return 8, true
	case types.Int16:
		return 16, true
	case types.Int32:
		return 32, true
	case types.Uint, types.Uint64, types.Uintptr:
		return 64, false
	case types.Uint8:
		return 8, false
	case types.Uint16:
		return 16, false
	case types.Uint32:
		return 32, false
	}
	panic(fmt.Sprintf("kindWidth: kind %d", k))
}

func isSym(v value) bool {
	switch v.(type) {
	case sym, symb:
		return true
	}
	return false
}

// hasSym reports whether v contains symbolic data at any depth reachable
// without following pointers.
func hasSym(v value) bool {
	switch v := v.(type) {
	case sym, symb, *symstr:
		return true
	case array:
		for _, e := range v {
			if hasSym(e) {
				return true
			}
		}
	case structure:
		for _, e := range v {
			if hasSym(e) {
				return true
			}
		}
	case iface:
		return hasSym(v.v)
	}
	return false
}

// intKind returns the basic kind of a concrete integer value.
func intKind(v value) (types.BasicKind, bool) {
	switch v.(type) {
	case int:
		return types.Int, true
	case int8:
		return types.Int8, true
	case int16:
		return types.Int16, true
	case int32:
		return types.Int32, true
	case int64:
		return types.Int64, true
	case uint:
		return types.Uint, true
	case uint8:
		return types.Uint8, true
	case uint16:
		return types.Uint16, true
	case uint32:
		return types.Uint32, true
	case uint64:
		return types.Uint64, true
	case uintptr:
		return types.Uintptr, true
	}
	return 0, false
}

// toTerm converts an integer value (concrete or symbolic) to a term.
func (cx *pathCtx) toTerm(v value) (*Term, types.BasicKind) {
	switch v := v.(type) {
	case sym:
		return v.t, v.k
	}
	k, ok := intKind(v)
	if !ok {
		cx.unsupported(fmt.Sprintf("symbolic operation on %T", v))
	}
	w, signed := kindWidth(k)
	if signed {
		return cx.f.ConstI(asInt64(v), w), k
	}
	return cx.f.ConstU(uint64(asInt64(v)), w), k
}

func (cx *pathCtx) toBoolTerm(v value) *Term {
	switch v := v.(type) {
	case symb:
		return v.t
	case bool:
		return cx.f.BoolConst(v)
	}
	cx.unsupported(fmt.Sprintf("bool term from %T", v))
	return nil
}

// fromTerm wraps a term as a value of kind k, concretely when constant.
func (cx *pathCtx) fromTerm(t *Term, k types.BasicKind) value {
	if t.op != OpConst {
		return sym{t, k}
	}
	w, signed := kindWidth(k)
	var i64 int64
	var u64 uint64
	if signed {
		i64 = toSigned(t.c, w).Int64()
	} else {
		u64 = t.c.Uint64()
	}
	switch k {
	case types.Int:
		return int(i64)
	case types.Int8:
		return int8(i64)
	case types.Int16:
		return int16(i64)
	case types.Int32:
		return int32(i64)
	case types.Int64:
		return i64
	case types.Uint:
		return uint(u64)
	case types.Uint8:
		return uint8(u64)
	case types.Uint16:
		return uint16(u64)
	case types.Uint32:
		return uint32(u64)
	case types.Uint64:
		return u64
	case types.Uintptr:
		return uintptr(u64)
	}
	panic("fromTerm")
}

func (cx *pathCtx) fromBoolTerm(t *Term) value {
	if t.op == OpConst {
		return t.isTrue()
	}
	return symb{t}
}

// truth resolves a (possibly symbolic) bool, forking when needed.
func (cx *pathCtx) truth(v value) bool {
	switch v := v.(type) {
	case bool:
		return v
	case symb:
		return cx.decide(v.t)
	}
	panic(fmt.Sprintf("truth: %T", v))
}

// conc returns a concrete int64 for an integer value, forking over the
// feasible values of a symbolic one.
func (cx *pathCtx) conc(v value) int64 {
	if s, ok := v.(sym); ok {
		w, signed := kindWidth(s.k)
		r := cx.concretize(s.t)
		if signed {
			return toSigned(r, w).Int64()
		}
		return int64(r.Uint64())
	}
	return asInt64(v)
}

// concValue concretises a symbolic integer keeping its Go type.
func (cx *pathCtx) concValue(v value) value {
	if s, ok := v.(sym); ok {
		r := cx.concretize(s.t)
		return cx.fromTerm(cx.f.Const(r, s.t.w), s.k)
	}
	if b, ok := v.(symb); ok {
		return cx.decide(b.t)
	}
	return v
}

func (cx *pathCtx) symBinop(op token.Token, x, y value) value {
	f := cx.f
	// booleans
	_, xb := x.(symb)
	_, yb := y.(symb)
	if xb || yb {
		tx, ty := cx.toBoolTerm(x), cx.toBoolTerm(y)
		switch op {
		case token.EQL:
			return cx.fromBoolTerm(f.Iff(tx, ty))
		case token.NEQ:
			return cx.fromBoolTerm(f.Not(f.Iff(tx, ty)))
		}
		cx.unsupported("bool binop " + op.String())
	}
	if op == token.SHL || op == token.SHR {
		tx, k := cx.toTerm(x)
		ty, ky := cx.toTerm(y)
		w, signed := kindWidth(k)
		_, ysigned := kindWidth(ky)
		if ysigned {
			// negative shift count panics
			if cx.decide(f.Cmp(OpSLt, ty, f.ConstU(0, ty.w))) {
				panic("runtime error: negative shift amount")
			}
		}
		// saturate the amount to w and bring it to width w
		var amt *Term
		if ty.w > w {
			big := f.Not(f.Cmp(OpULt, ty, f.ConstU(uint64(w), ty.w)))
			amt = f.Ite(big, f.ConstU(uint64(w), w), f.Extract(ty, w-1, 0))
		} else {
			amt = f.ZExt(ty, w)
		}
		switch {
		case op == token.SHL:
			return cx.fromTerm(f.Bin(OpShl, tx, amt), k)
		case signed:
			return cx.fromTerm(f.Bin(OpAShr, tx, amt), k)
		default:
			return cx.fromTerm(f.Bin(OpLShr, tx, amt), k)
		}
	}
	tx, k := cx.toTerm(x)
	ty, k2 := cx.toTerm(y)
	if _, ok := x.(sym); !ok {
		k = k2
	}
	if tx.w != ty.w {
		cx.abort("engine-error", fmt.Sprintf("binop %s width mismatch %d/%d", op, tx.w, ty.w))
	}
	_, signed := kindWidth(k)
	switch op {
	case token.ADD:
		return cx.fromTerm(f.Bin(OpAdd, tx, ty), k)
	case token.SUB:
		return cx.fromTerm(f.Bin(OpSub, tx, ty), k)
	case token.MUL:
		return cx.fromTerm(f.Bin(OpMul, tx, ty), k)
	case token.QUO, token.REM:
		if cx.decide(f.Cmp(OpEq, ty, f.ConstU(0, ty.w))) {
			panic("runtime error: integer divide by zero")
		}
		var o Op
		switch {
		case op == token.QUO && signed:
			o = OpSDiv
		case op == token.QUO:
			o = OpUDiv
		case signed:
			o = OpSRem
		default:
			o = OpURem
		}
		return cx.fromTerm(f.Bin(o, tx, ty), k)
	case token.AND:
		return cx.fromTerm(f.Bin(OpAnd, tx, ty), k)
	case token.OR:
		return cx.fromTerm(f.Bin(OpOr, tx, ty), k)
	case token.XOR:
		return cx.fromTerm(f.Bin(OpXor, tx, ty), k)
	case token.AND_NOT:
		return cx.fromTerm(f.Bin(OpAnd, tx, f.BvNot(ty)), k)
	case token.EQL:
		return cx.fromBoolTerm(f.Cmp(OpEq, tx, ty))
	case token.NEQ:
		return cx.fromBoolTerm(f.Not(f.Cmp(OpEq, tx, ty)))
	case token.LSS:
		if signed {
			return cx.fromBoolTerm(f.Cmp(OpSLt, tx, ty))
		}
		return cx.fromBoolTerm(f.Cmp(OpULt, tx, ty))
	case token.LEQ:
		if signed {
			return cx.fromBoolTerm(f.Cmp(OpSLe, tx, ty))
		}
		return cx.fromBoolTerm(f.Cmp(OpULe, tx, ty))
	case token.GTR:
		if signed {
			return cx.fromBoolTerm(f.Cmp(OpSLt, ty, tx))
		}
		return cx.fromBoolTerm(f.Cmp(OpULt, ty, tx))
	case token.GEQ:
		if signed {
			return cx.fromBoolTerm(f.Cmp(OpSLe, ty, tx))
		}
		return cx.fromBoolTerm(f.Cmp(OpULe, ty, tx))
	}
	cx.unsupported("symbolic binop " + op.String())
	return nil
}

func (cx *pathCtx) symUnop(op token.Token, x value) value {
	switch x := x.(type) {
	case symb:
		if op == token.NOT {
			return cx.fromBoolTerm(cx.f.Not(x.t))
		}
	case sym:
		switch op {
		case token.SUB:
			return cx.fromTerm(cx.f.Neg(x.t), x.k)
		case token.XOR:
			return cx.fromTerm(cx.f.BvNot(x.t), x.k)
		}
	}
	cx.unsupported("symbolic unop " + op.String())
	return nil
}

// symConv converts a symbolic integer to basic type dst.
func (cx *pathCtx) symConv(dst *types.Basic, x sym) value {
	info := dst.Info()
	switch {
	case info&types.IsInteger != 0:
		dk := dst.Kind()
		dw, _ := kindWidth(dk)
		_, ssigned := kindWidth(x.k)
		var t *Term
		switch {
		case dw <= x.t.w:
			t = cx.f.ZExt(x.t, dw) // truncation (or same width)
		case ssigned:
			t = cx.f.SExt(x.t, dw)
		default:
			t = cx.f.ZExt(x.t, dw)
		}
		return cx.fromTerm(t, dk)
	case info&types.IsString != 0:
		v := cx.conc(x)
		return string(rune(v))
	case info&types.IsFloat != 0:
		cx.unsupported("conversion of symbolic integer to float")
	}
	cx.unsupported("symbolic conversion to " + dst.String())
	return nil
}

// eqTerm builds the term for x == y following Go's equality for type t.
// Pointers, channels, functions are compared by identity (concrete).
func (cx *pathCtx) eqTerm(t types.Type, x, y value) *Term {
	f := cx.f
	switch x := x.(type) {
	case sym, symb:
		// handled below
	case array:
		ya := y.(array)
		var tElt types.Type
		if t != nil {
			tElt = t.Underlying().(*types.Array).Elem()
		}
		// byte arrays: compare as one bit-vector (keeps actor ids whole)
		if bt, ok := cx.bytesTerm([]value(x)); ok {
			if bt2, ok2 := cx.bytesTerm([]value(ya)); ok2 && bt != nil && bt2 != nil {
				return f.Cmp(OpEq, bt, bt2)
			}
		}
		r := f.True
		for i := range x {
			r = f.And(r, cx.eqTerm(tElt, x[i], ya[i]))
			if r.isFalse() {
				return r
			}
		}
		return r
	case structure:
		ys := y.(structure)
		var st *types.Struct
		if t != nil {
			st = t.Underlying().(*types.Struct)
		}
		r := f.True
		for i := range x {
			var ft types.Type
			if st != nil {
				if st.Field(i).Name() == "_" {
					continue
				}
				ft = st.Field(i).Type()
			}
			r = f.And(r, cx.eqTerm(ft, x[i], ys[i]))
			if r.isFalse() {
				return r
			}
		}
		return r
	case iface:
		yi := y.(iface)
		if !sameType(x.t, yi.t) {
			return f.False
		}
		if x.t == nil {
			return f.True
		}
		return cx.eqTerm(x.t, x.v, yi.v)
	case string:
		switch y := y.(type) {
		case string:
			return f.BoolConst(x == y)
		case *symstr:
			return cx.symstrEq(concreteStr(x), y)
		}
	case *symstr:
		switch y := y.(type) {
		case string:
			return cx.symstrEq(x, concreteStr(y))
		case *symstr:
			return cx.symstrEq(x, y)
		}
	}
	if isSym(x) || isSym(y) {
		if _, ok := x.(symb); ok {
			return f.Iff(cx.toBoolTerm(x), cx.toBoolTerm(y))
		}
		if _, ok := y.(symb); ok {
			return f.Iff(cx.toBoolTerm(x), cx.toBoolTerm(y))
		}
		tx, _ := cx.toTerm(x)
		ty, _ := cx.toTerm(y)
		return f.Cmp(OpEq, tx, ty)
	}
	return f.BoolConst(equals(t, x, y))
}

// bytesTerm returns the concatenation of a []byte-like sequence as one
// term (high byte first); ok=false if an element is not an 8-bit integer.
// A nil term with ok=true means the sequence is empty.
func (cx *pathCtx) bytesTerm(s []value) (*Term, bool) {
	if len(s) == 0 {
		return nil, true
	}
	parts := make([]*Term, len(s))
	for i, v := range s {
		switch v := v.(type) {
		case uint8:
			parts[i] = cx.f.ConstU(uint64(v), 8)
		case sym:
			if v.t.w != 8 {
				return nil, false
			}
			parts[i] = v.t
		default:
			return nil, false
		}
	}
	return cx.f.ConstAwareConcat(parts), true
}

// ConstAwareConcat concatenates, folding constants and adjacent extracts.
func (f *Factory) ConstAwareConcat(parts []*Term) *Term {
	return f.ConcatAll(parts)
}

// symBytes splits a w-bit term into w/8 byte values, high byte first.
func (cx *pathCtx) symBytes(t *Term) []value {
	n := t.w / 8
	out := make([]value, n)
	for i := 0; i < n; i++ {
		hi := t.w - 1 - 8*i
		out[i] = cx.fromTerm(cx.f.Extract(t, hi, hi-7), types.Uint8)
	}
	return out
}

func bigFromHex(s string) *big.Int {
	if len(s) > 2 && s[:2] == "0x" {
		s = s[2:]
	}
	r, ok := new(big.Int).SetString(s, 16)
	if !ok {
		return big.NewInt(0)
	}
	return r
}

// strBinop implements binary operators on strings when at least one operand
// is a structured symbolic string.
func (cx *pathCtx) strBinop(op token.Token, x, y value) value {
	switch op {
	case token.ADD:
		return strConcat(x, y)
	case token.EQL:
		return cx.fromBoolTerm(cx.eqTerm(nil, x, y))
	case token.NEQ:
		return cx.fromBoolTerm(cx.f.Not(cx.eqTerm(nil, x, y)))
	}
	cx.unsupported("operator " + op.String() + " on symbolic string")
	return nil
}
