// Copyright (verif). Symbolic term DAG for the gosmt engine.
//
// Terms are hash-consed per factory (one factory per worker), lightly
// simplified at construction, and printed as SMT-LIB2 (QF_BV + Bool).

package symx

import (
	"fmt"
	"math/big"
	"sort"
	"strings"
)

type Op uint8

const (
	OpVar Op = iota
	OpConst
	OpAdd
	OpSub
	OpMul
	OpUDiv
	OpSDiv
	OpURem
	OpSRem
	OpAnd
	OpOr
	OpXor
	OpNot // bvnot
	OpNeg
	OpShl
	OpLShr
	OpAShr
	OpConcat
	OpExtract
	OpZExt
	OpSExt
	OpIte
	// boolean-valued
	OpEq
	OpULt
	OpULe
	OpSLt
	OpSLe
	OpBAnd
	OpBOr
	OpBNot
)

var opNames = [...]string{
	OpVar: "var", OpConst: "const", OpAdd: "bvadd", OpSub: "bvsub", OpMul: "bvmul",
	OpUDiv: "bvudiv", OpSDiv: "bvsdiv", OpURem: "bvurem", OpSRem: "bvsrem",
	OpAnd: "bvand", OpOr: "bvor", OpXor: "bvxor", OpNot: "bvnot", OpNeg: "bvneg",
	OpShl: "bvshl", OpLShr: "bvlshr", OpAShr: "bvashr", OpConcat: "concat",
	OpExtract: "extract", OpZExt: "zero_extend", OpSExt: "sign_extend", OpIte: "ite",
	OpEq: "=", OpULt: "bvult", OpULe: "bvule", OpSLt: "bvslt", OpSLe: "bvsle",
	OpBAnd: "and", OpBOr: "or", OpBNot: "not",
}

// Term is an immutable SMT term. w==0 means sort Bool.
type Term struct {
	op     Op
	w      int
	a      [3]*Term
	n      int      // number of args
	c      *big.Int // OpConst
	name   string   // OpVar
	hi, lo int      // OpExtract; OpZExt/OpSExt: hi = number of added bits
	h      uint64
	id     int
}

func (t *Term) IsConst() bool { return t.op == OpConst }
func (t *Term) Width() int    { return t.w }

type tkey struct {
	op         Op
	w, hi, lo  int
	a0, a1, a2 int
	s          string
}

// Factory interns terms.
type Factory struct {
	tab      map[tkey]*Term
	next     int
	distinct map[[2]int]bool // pairs of term ids known to be unequal (atoms)
	True     *Term
	False    *Term
}

func NewFactory() *Factory {
	f := &Factory{tab: map[tkey]*Term{}, distinct: map[[2]int]bool{}}
	f.True = f.BoolConst(true)
	f.False = f.BoolConst(false)
	return f
}

func (f *Factory) Size() int { return len(f.tab) }

func mix(h, x uint64) uint64 {
	h ^= x + 0x9e3779b97f4a7c15 + (h << 6) + (h >> 2)
	return h
}

func hashStr(s string) uint64 {
	var h uint64 = 14695981039346656037
	for i := 0; i < len(s); i++ {
		h ^= uint64(s[i])
		h *= 1099511628211
	}
	return h
}

func (f *Factory) intern(t *Term) *Term {
	k := tkey{op: t.op, w: t.w, hi: t.hi, lo: t.lo, a0: -1, a1: -1, a2: -1}
	if t.n > 0 {
		k.a0 = t.a[0].id
	}
	if t.n > 1 {
		k.a1 = t.a[1].id
	}
	if t.n > 2 {
		k.a2 = t.a[2].id
	}
	if t.op == OpVar {
		k.s = t.name
	} else if t.op == OpConst {
		k.s = t.c.Text(16)
	}
	if e, ok := f.tab[k]; ok {
		return e
	}
	h := mix(uint64(t.op)*131+uint64(t.w), uint64(t.hi)*65537+uint64(t.lo))
	h = mix(h, hashStr(k.s))
	for i := 0; i < t.n; i++ {
		h = mix(h, t.a[i].h)
	}
	t.h = h
	t.id = f.next
	f.next++
	f.tab[k] = t
	return t
}

func mask(w int) *big.Int {
	m := new(big.Int).Lsh(big.NewInt(1), uint(w))
	return m.Sub(m, big.NewInt(1))
}

func norm(v *big.Int, w int) *big.Int {
	r := new(big.Int).And(v, mask(w))
	return r
}

func toSigned(v *big.Int, w int) *big.Int {
	if v.Bit(w-1) == 1 {
		return new(big.Int).Sub(v, new(big.Int).Lsh(big.NewInt(1), uint(w)))
	}
	return new(big.Int).Set(v)
}

func (f *Factory) Var(name string, w int) *Term {
	return f.intern(&Term{op: OpVar, w: w, name: name})
}

func (f *Factory) Const(v *big.Int, w int) *Term {
	if w <= 0 {
		panic("Const: bad width")
	}
	return f.intern(&Term{op: OpConst, w: w, c: norm(v, w)})
}

func (f *Factory) ConstU(v uint64, w int) *Term {
	return f.Const(new(big.Int).SetUint64(v), w)
}

func (f *Factory) ConstI(v int64, w int) *Term {
	return f.Const(big.NewInt(v), w)
}

func (f *Factory) BoolConst(b bool) *Term {
	c := big.NewInt(0)
	if b {
		c = big.NewInt(1)
	}
	return f.intern(&Term{op: OpConst, w: 0, c: c})
}

func (t *Term) isTrue() bool  { return t.op == OpConst && t.w == 0 && t.c.Sign() != 0 }
func (t *Term) isFalse() bool { return t.op == OpConst && t.w == 0 && t.c.Sign() == 0 }

// MarkDistinct records that atoms a and b can never be equal (an assumption
// that the caller must also assert in the path condition).
func (f *Factory) MarkDistinct(a, b *Term) {
	f.distinct[[2]int{a.id, b.id}] = true
	f.distinct[[2]int{b.id, a.id}] = true
}

func (f *Factory) mk1(op Op, w int, x *Term) *Term {
	return f.intern(&Term{op: op, w: w, a: [3]*Term{x}, n: 1})
}
func (f *Factory) mk2(op Op, w int, x, y *Term) *Term {
	return f.intern(&Term{op: op, w: w, a: [3]*Term{x, y}, n: 2})
}

// ---- evaluation of operators on constants

func evalBin(op Op, w int, x, y *big.Int) (*big.Int, bool) {
	r := new(big.Int)
	switch op {
	case OpAdd:
		return norm(r.Add(x, y), w), true
	case OpSub:
		return norm(r.Sub(x, y), w), true
	case OpMul:
		return norm(r.Mul(x, y), w), true
	case OpUDiv:
		if y.Sign() == 0 {
			return mask(w), true
		}
		return r.Quo(x, y), true
	case OpURem:
		if y.Sign() == 0 {
			return new(big.Int).Set(x), true
		}
		return r.Rem(x, y), true
	case OpSDiv:
		sx, sy := toSigned(x, w), toSigned(y, w)
		if sy.Sign() == 0 {
			if sx.Sign() >= 0 {
				return mask(w), true
			}
			return big.NewInt(1), true
		}
		return norm(r.Quo(sx, sy), w), true
	case OpSRem:
		sx, sy := toSigned(x, w), toSigned(y, w)
		if sy.Sign() == 0 {
			return new(big.Int).Set(x), true
		}
		return norm(r.Rem(sx, sy), w), true
	case OpAnd:
		return r.And(x, y), true
	case OpOr:
		return r.Or(x, y), true
	case OpXor:
		return r.Xor(x, y), true
	case OpShl:
		if y.Cmp(big.NewInt(int64(w))) >= 0 {
			return big.NewInt(0), true
		}
		return norm(r.Lsh(x, uint(y.Uint64())), w), true
	case OpLShr:
		if y.Cmp(big.NewInt(int64(w))) >= 0 {
			return big.NewInt(0), true
		}
		return r.Rsh(x, uint(y.Uint64())), true
	case OpAShr:
		sx := toSigned(x, w)
		sh := uint(w)
		if y.Cmp(big.NewInt(int64(w))) < 0 {
			sh = uint(y.Uint64())
		}
		return norm(r.Rsh(sx, sh), w), true
	}
	return nil, false
}

func evalCmp(op Op, w int, x, y *big.Int) bool {
	switch op {
	case OpEq:
		return x.Cmp(y) == 0
	case OpULt:
		return x.Cmp(y) < 0
	case OpULe:
		return x.Cmp(y) <= 0
	case OpSLt:
		return toSigned(x, w).Cmp(toSigned(y, w)) < 0
	case OpSLe:
		return toSigned(x, w).Cmp(toSigned(y, w)) <= 0
	}
	panic("evalCmp")
}

// linear splits t into (base, constant) with t == base + constant (mod 2^w).
// base may be nil when t is a constant.
func (f *Factory) linear(t *Term) (*Term, *big.Int) {
	switch t.op {
	case OpConst:
		return nil, t.c
	case OpAdd:
		if t.a[1].op == OpConst {
			return t.a[0], t.a[1].c
		}
	}
	return t, big.NewInt(0)
}

// Bin builds a bit-vector binary operation.
func (f *Factory) Bin(op Op, x, y *Term) *Term {
	if x.w != y.w || x.w == 0 {
		panic(fmt.Sprintf("Bin %s: width mismatch %d vs %d", opNames[op], x.w, y.w))
	}
	w := x.w
	if x.op == OpConst && y.op == OpConst {
		if r, ok := evalBin(op, w, x.c, y.c); ok {
			return f.Const(r, w)
		}
	}
	switch op {
	case OpAdd:
		if r := f.disjointMerge(x, y); r != nil {
			return r
		}
		return f.sum(w, x, y)
	case OpSub:
		return f.sum(w, x, f.Neg(y))
	case OpMul:
		if x.op == OpConst {
			x, y = y, x
		}
		if y.op == OpConst {
			if y.c.Sign() == 0 {
				return y
			}
			if y.c.Cmp(big.NewInt(1)) == 0 {
				return x
			}
		}
	case OpAnd:
		if x == y {
			return x
		}
		if x.op == OpConst {
			x, y = y, x
		}
		if y.op == OpConst {
			if y.c.Sign() == 0 {
				return y
			}
			if y.c.Cmp(mask(w)) == 0 {
				return x
			}
		}
	case OpOr:
		if x == y {
			return x
		}
		if x.op == OpConst {
			x, y = y, x
		}
		if y.op == OpConst {
			if y.c.Sign() == 0 {
				return x
			}
			if y.c.Cmp(mask(w)) == 0 {
				return y
			}
		}
	case OpXor:
		if x == y {
			return f.ConstU(0, w)
		}
		if x.op == OpConst {
			x, y = y, x
		}
		if y.op == OpConst && y.c.Sign() == 0 {
			return x
		}
	case OpShl, OpLShr, OpAShr:
		if y.op == OpConst {
			if y.c.Sign() == 0 {
				return x
			}
			// shifts by a constant become concat/extract so that byte
			// (de)serialisation code folds back to the original word
			if y.c.Cmp(big.NewInt(int64(w))) >= 0 {
				if op == OpAShr {
					return f.SExt(f.Extract(x, w-1, w-1), w)
				}
				return f.ConstU(0, w)
			}
			k := int(y.c.Int64())
			switch op {
			case OpShl:
				return f.Concat(f.Extract(x, w-1-k, 0), f.ConstU(0, k))
			case OpLShr:
				return f.Concat(f.ConstU(0, k), f.Extract(x, w-1, k))
			case OpAShr:
				return f.SExt(f.Extract(x, w-1, k), w)
			}
		}
	}
	if op == OpOr || op == OpXor || op == OpAdd {
		if r := f.disjointMerge(x, y); r != nil {
			return r
		}
	}
	return f.mk2(op, w, x, y)
}

func (f *Factory) Neg(x *Term) *Term {
	if x.op == OpConst {
		return f.Const(new(big.Int).Neg(x.c), x.w)
	}
	if x.op == OpNeg {
		return x.a[0]
	}
	if x.op == OpAdd {
		// -(a+b) = (-a)+(-b): keeps sums flat so that opposite addends cancel
		return f.sum(x.w, f.Neg(x.a[0]), f.Neg(x.a[1]))
	}
	return f.mk1(OpNeg, x.w, x)
}

// collect flattens a sum into non-constant addends and a constant.
func (f *Factory) collect(t *Term, out *[]*Term, c *big.Int) {
	switch t.op {
	case OpAdd:
		f.collect(t.a[0], out, c)
		f.collect(t.a[1], out, c)
	case OpConst:
		c.Add(c, t.c)
	default:
		*out = append(*out, t)
	}
}

// sum builds x+y in canonical form: addends sorted by structural hash,
// opposite addends cancelled, the constant last. Syntactically different
// but arithmetically equal sums (a+b+c, a+c+b) become the same term.
func (f *Factory) sum(w int, x, y *Term) *Term {
	var ts []*Term
	c := new(big.Int)
	f.collect(x, &ts, c)
	f.collect(y, &ts, c)
	// cancel t and -t
	for i := 0; i < len(ts); i++ {
		if ts[i] == nil {
			continue
		}
		var opp *Term
		if ts[i].op == OpNeg {
			opp = ts[i].a[0]
		}
		for j := 0; j < len(ts); j++ {
			if j == i || ts[j] == nil {
				continue
			}
			if (opp != nil && ts[j] == opp) || (ts[j].op == OpNeg && ts[j].a[0] == ts[i]) {
				ts[i], ts[j] = nil, nil
				break
			}
		}
	}
	live := ts[:0]
	for _, t := range ts {
		if t != nil {
			live = append(live, t)
		}
	}
	sort.SliceStable(live, func(i, j int) bool {
		if live[i].h != live[j].h {
			return live[i].h < live[j].h
		}
		return live[i].id < live[j].id
	})
	cn := norm(c, w)
	if len(live) == 0 {
		return f.Const(cn, w)
	}
	r := live[0]
	for _, t := range live[1:] {
		r = f.mk2(OpAdd, w, r, t)
	}
	if cn.Sign() != 0 {
		r = f.mk2(OpAdd, w, r, f.Const(cn, w))
	}
	return r
}

func (f *Factory) BvNot(x *Term) *Term {
	if x.op == OpConst {
		return f.Const(new(big.Int).Xor(x.c, mask(x.w)), x.w)
	}
	if x.op == OpNot {
		return x.a[0]
	}
	return f.mk1(OpNot, x.w, x)
}

// Cmp builds a comparison (OpEq, OpULt, OpULe, OpSLt, OpSLe).
func (f *Factory) Cmp(op Op, x, y *Term) *Term {
	if x.w != y.w {
		panic(fmt.Sprintf("Cmp %s: width mismatch %d vs %d", opNames[op], x.w, y.w))
	}
	if x.w == 0 {
		if op != OpEq {
			panic("Cmp on Bool")
		}
		return f.Iff(x, y)
	}
	if x.op == OpConst && y.op == OpConst {
		return f.BoolConst(evalCmp(op, x.w, x.c, y.c))
	}
	if x == y {
		return f.BoolConst(op == OpEq || op == OpULe || op == OpSLe)
	}
	if op == OpEq {
		if f.distinct[[2]int{x.id, y.id}] {
			return f.False
		}
		// (b + c1) == (b + c2)  <=>  c1 == c2 (mod 2^w): sound in modular arithmetic.
		bx, cx := f.linear(x)
		by, cy := f.linear(y)
		if bx != nil && bx == by {
			return f.BoolConst(norm(cx, x.w).Cmp(norm(cy, x.w)) == 0)
		}
		// b1 + c == b2 + c  <=> b1 == b2
		if bx != nil && by != nil && bx != x && by != y && norm(cx, x.w).Cmp(norm(cy, x.w)) == 0 {
			return f.Cmp(OpEq, bx, by)
		}
		// concat/concat with identical shapes: split (cheap and helps distinctness)
		if x.op == OpConcat && y.op == OpConcat && x.a[0].w == y.a[0].w {
			return f.And(f.Cmp(OpEq, x.a[0], y.a[0]), f.Cmp(OpEq, x.a[1], y.a[1]))
		}
		// canonical order of arguments
		if x.h > y.h || (x.h == y.h && x.id > y.id) {
			x, y = y, x
		}
	}
	if op == OpULt && y.op == OpConst && y.c.Sign() == 0 {
		return f.False
	}
	if op == OpULe && x.op == OpConst && x.c.Sign() == 0 {
		return f.True
	}
	return f.mk2(op, 0, x, y)
}

func (f *Factory) Not(x *Term) *Term {
	if x.w != 0 {
		panic("Not on bit-vector")
	}
	if x.op == OpConst {
		return f.BoolConst(x.c.Sign() == 0)
	}
	if x.op == OpBNot {
		return x.a[0]
	}
	return f.mk1(OpBNot, 0, x)
}

func (f *Factory) And(x, y *Term) *Term {
	if x.isFalse() || y.isFalse() {
		return f.False
	}
	if x.isTrue() {
		return y
	}
	if y.isTrue() {
		return x
	}
	if x == y {
		return x
	}
	if f.Not(x) == y {
		return f.False
	}
	return f.mk2(OpBAnd, 0, x, y)
}

func (f *Factory) Or(x, y *Term) *Term {
	if x.isTrue() || y.isTrue() {
		return f.True
	}
	if x.isFalse() {
		return y
	}
	if y.isFalse() {
		return x
	}
	if x == y {
		return x
	}
	if f.Not(x) == y {
		return f.True
	}
	return f.mk2(OpBOr, 0, x, y)
}

func (f *Factory) Iff(x, y *Term) *Term {
	if x == y {
		return f.True
	}
	if x.op == OpConst {
		if x.isTrue() {
			return y
		}
		return f.Not(y)
	}
	if y.op == OpConst {
		if y.isTrue() {
			return x
		}
		return f.Not(x)
	}
	if x.h > y.h || (x.h == y.h && x.id > y.id) {
		x, y = y, x
	}
	return f.mk2(OpEq, 0, x, y)
}

func (f *Factory) Ite(c, x, y *Term) *Term {
	if c.isTrue() {
		return x
	}
	if c.isFalse() {
		return y
	}
	if x == y {
		return x
	}
	if x.w == 0 {
		return f.Or(f.And(c, x), f.And(f.Not(c), y))
	}
	return f.intern(&Term{op: OpIte, w: x.w, a: [3]*Term{c, x, y}, n: 3})
}

// Extract bits hi..lo (inclusive).
func (f *Factory) Extract(x *Term, hi, lo int) *Term {
	if hi < lo || lo < 0 || hi >= x.w {
		panic(fmt.Sprintf("Extract(%d,%d) of width %d", hi, lo, x.w))
	}
	w := hi - lo + 1
	if w == x.w {
		return x
	}
	switch x.op {
	case OpConst:
		return f.Const(new(big.Int).Rsh(x.c, uint(lo)), w)
	case OpExtract:
		return f.Extract(x.a[0], x.lo+hi, x.lo+lo)
	case OpConcat:
		lw := x.a[1].w
		if hi < lw {
			return f.Extract(x.a[1], hi, lo)
		}
		if lo >= lw {
			return f.Extract(x.a[0], hi-lw, lo-lw)
		}
	case OpZExt:
		iw := x.a[0].w
		if hi < iw {
			return f.Extract(x.a[0], hi, lo)
		}
		if lo >= iw {
			return f.ConstU(0, w)
		}
	case OpSExt:
		iw := x.a[0].w
		if hi < iw {
			return f.Extract(x.a[0], hi, lo)
		}
	}
	return f.intern(&Term{op: OpExtract, w: w, a: [3]*Term{x}, n: 1, hi: hi, lo: lo})
}

// Concat: x is the high part.
func (f *Factory) Concat(x, y *Term) *Term {
	if x.op == OpConst && y.op == OpConst {
		v := new(big.Int).Lsh(x.c, uint(y.w))
		return f.Const(v.Or(v, y.c), x.w+y.w)
	}
	// adjacent extracts of the same base merge
	if x.op == OpExtract && y.op == OpExtract && x.a[0] == y.a[0] && x.lo == y.hi+1 {
		return f.Extract(x.a[0], x.hi, y.lo)
	}
	// y = concat(y0, y1) with y0 adjacent to x: re-associate
	if x.op == OpExtract && y.op == OpConcat && y.a[0].op == OpExtract && x.a[0] == y.a[0].a[0] && x.lo == y.a[0].hi+1 {
		return f.Concat(f.Extract(x.a[0], x.hi, y.a[0].lo), y.a[1])
	}
	if x.op == OpConst && y.op == OpConcat && y.a[0].op == OpConst {
		return f.Concat(f.Concat(x, y.a[0]), y.a[1])
	}
	return f.mk2(OpConcat, x.w+y.w, x, y)
}

// ConcatAll concatenates parts, high part first.
func (f *Factory) ConcatAll(parts []*Term) *Term {
	if len(parts) == 0 {
		panic("ConcatAll: empty")
	}
	r := parts[len(parts)-1]
	for i := len(parts) - 2; i >= 0; i-- {
		r = f.Concat(parts[i], r)
	}
	return r
}

func (f *Factory) ZExt(x *Term, w int) *Term {
	if w == x.w {
		return x
	}
	if w < x.w {
		return f.Extract(x, w-1, 0)
	}
	if x.op == OpConst {
		return f.Const(x.c, w)
	}
	if x.op == OpZExt {
		return f.ZExt(x.a[0], w)
	}
	return f.intern(&Term{op: OpZExt, w: w, a: [3]*Term{x}, n: 1, hi: w - x.w})
}

func (f *Factory) SExt(x *Term, w int) *Term {
	if w == x.w {
		return x
	}
	if w < x.w {
		return f.Extract(x, w-1, 0)
	}
	if x.op == OpConst {
		return f.Const(toSigned(x.c, x.w), w)
	}
	if x.op == OpSExt {
		return f.SExt(x.a[0], w)
	}
	return f.intern(&Term{op: OpSExt, w: w, a: [3]*Term{x}, n: 1, hi: w - x.w})
}

// ---- printing

func sortOf(w int) string {
	if w == 0 {
		return "Bool"
	}
	return fmt.Sprintf("(_ BitVec %d)", w)
}

func (t *Term) leaf() bool { return t.op == OpVar || t.op == OpConst }

func (t *Term) ref() string {
	switch t.op {
	case OpVar:
		return t.name
	case OpConst:
		if t.w == 0 {
			if t.c.Sign() != 0 {
				return "true"
			}
			return "false"
		}
		return fmt.Sprintf("(_ bv%s %d)", t.c.Text(10), t.w)
	}
	return fmt.Sprintf("t%d", t.id)
}

// body prints the defining expression of a non-leaf term, referring to
// children by name.
func (t *Term) body() string {
	var sb strings.Builder
	switch t.op {
	case OpExtract:
		fmt.Fprintf(&sb, "((_ extract %d %d) %s)", t.hi, t.lo, t.a[0].ref())
	case OpZExt, OpSExt:
		fmt.Fprintf(&sb, "((_ %s %d) %s)", opNames[t.op], t.hi, t.a[0].ref())
	default:
		sb.WriteString("(")
		sb.WriteString(opNames[t.op])
		for i := 0; i < t.n; i++ {
			sb.WriteString(" ")
			sb.WriteString(t.a[i].ref())
		}
		sb.WriteString(")")
	}
	return sb.String()
}

// String prints the full tree (debugging / evidence samples only).
func (t *Term) String() string {
	if t.leaf() {
		return t.ref()
	}
	var sb strings.Builder
	switch t.op {
	case OpExtract:
		fmt.Fprintf(&sb, "((_ extract %d %d) %s)", t.hi, t.lo, t.a[0].String())
	case OpZExt, OpSExt:
		fmt.Fprintf(&sb, "((_ %s %d) %s)", opNames[t.op], t.hi, t.a[0].String())
	default:
		sb.WriteString("(")
		sb.WriteString(opNames[t.op])
		for i := 0; i < t.n; i++ {
			sb.WriteString(" ")
			sb.WriteString(t.a[i].String())
		}
		sb.WriteString(")")
	}
	return sb.String()
}

// Eval evaluates t under a valuation of its variables. Missing variables are 0.
func (t *Term) Eval(val map[string]*big.Int, memo map[*Term]*big.Int) *big.Int {
	if r, ok := memo[t]; ok {
		return r
	}
	var r *big.Int
	switch t.op {
	case OpVar:
		if v, ok := val[t.name]; ok {
			if t.w == 0 {
				r = v
			} else {
				r = norm(v, t.w)
			}
		} else {
			r = big.NewInt(0)
		}
	case OpConst:
		r = t.c
	case OpNeg:
		r = norm(new(big.Int).Neg(t.a[0].Eval(val, memo)), t.w)
	case OpNot:
		r = new(big.Int).Xor(t.a[0].Eval(val, memo), mask(t.w))
	case OpConcat:
		x, y := t.a[0].Eval(val, memo), t.a[1].Eval(val, memo)
		v := new(big.Int).Lsh(x, uint(t.a[1].w))
		r = v.Or(v, y)
	case OpExtract:
		r = norm(new(big.Int).Rsh(t.a[0].Eval(val, memo), uint(t.lo)), t.w)
	case OpZExt:
		r = t.a[0].Eval(val, memo)
	case OpSExt:
		r = norm(toSigned(t.a[0].Eval(val, memo), t.a[0].w), t.w)
	case OpIte:
		if t.a[0].Eval(val, memo).Sign() != 0 {
			r = t.a[1].Eval(val, memo)
		} else {
			r = t.a[2].Eval(val, memo)
		}
	case OpEq, OpULt, OpULe, OpSLt, OpSLe:
		x, y := t.a[0].Eval(val, memo), t.a[1].Eval(val, memo)
		b := false
		if t.a[0].w == 0 {
			b = (x.Sign() != 0) == (y.Sign() != 0)
		} else {
			b = evalCmp(t.op, t.a[0].w, x, y)
		}
		r = big.NewInt(0)
		if b {
			r = big.NewInt(1)
		}
	case OpBAnd:
		r = big.NewInt(0)
		if t.a[0].Eval(val, memo).Sign() != 0 && t.a[1].Eval(val, memo).Sign() != 0 {
			r = big.NewInt(1)
		}
	case OpBOr:
		r = big.NewInt(0)
		if t.a[0].Eval(val, memo).Sign() != 0 || t.a[1].Eval(val, memo).Sign() != 0 {
			r = big.NewInt(1)
		}
	case OpBNot:
		r = big.NewInt(1)
		if t.a[0].Eval(val, memo).Sign() != 0 {
			r = big.NewInt(0)
		}
	default:
		x, y := t.a[0].Eval(val, memo), t.a[1].Eval(val, memo)
		v, ok := evalBin(t.op, t.w, x, y)
		if !ok {
			panic("Eval: op " + opNames[t.op])
		}
		r = v
	}
	memo[t] = r
	return r
}

// Vars collects the variable leaves of t.
func (t *Term) Vars(seen map[*Term]bool, out *[]*Term) {
	if seen[t] {
		return
	}
	seen[t] = true
	if t.op == OpVar {
		*out = append(*out, t)
	}
	for i := 0; i < t.n; i++ {
		t.a[i].Vars(seen, out)
	}
}

type seg struct {
	t *Term
}

// segments flattens concat / zero_extend structure into pieces, high first.
func (f *Factory) segments(t *Term, out *[]*Term) {
	switch t.op {
	case OpConcat:
		f.segments(t.a[0], out)
		f.segments(t.a[1], out)
	case OpZExt:
		*out = append(*out, f.ConstU(0, t.hi))
		f.segments(t.a[0], out)
	default:
		*out = append(*out, t)
	}
}

func isZeroConst(t *Term) bool { return t.op == OpConst && t.c.Sign() == 0 }

// disjointMerge returns x|y (== x^y == x+y) when, after aligning their
// concat structure, every aligned piece is zero on at least one side.
// It returns nil when that is not the case.
func (f *Factory) disjointMerge(x, y *Term) *Term {
	if x.op != OpConcat && x.op != OpZExt && y.op != OpConcat && y.op != OpZExt {
		return nil
	}
	var xs, ys []*Term
	f.segments(x, &xs)
	f.segments(y, &ys)
	if len(xs) == 1 && len(ys) == 1 {
		return nil
	}
	var out []*Term
	i, j := 0, 0
	var cx, cy *Term
	for {
		if cx == nil {
			if i >= len(xs) {
				break
			}
			cx = xs[i]
			i++
		}
		if cy == nil {
			if j >= len(ys) {
				return nil
			}
			cy = ys[j]
			j++
		}
		n := cx.w
		if cy.w < n {
			n = cy.w
		}
		px, py := cx, cy
		if cx.w > n {
			px = f.Extract(cx, cx.w-1, cx.w-n)
			cx = f.Extract(cx, cx.w-n-1, 0)
		} else {
			cx = nil
		}
		if cy.w > n {
			py = f.Extract(cy, cy.w-1, cy.w-n)
			cy = f.Extract(cy, cy.w-n-1, 0)
		} else {
			cy = nil
		}
		switch {
		case isZeroConst(px):
			out = append(out, py)
		case isZeroConst(py):
			out = append(out, px)
		default:
			return nil
		}
	}
	if cy != nil || j < len(ys) {
		return nil
	}
	return f.ConcatAll(out)
}
