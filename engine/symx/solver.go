package symx

import (
	"bufio"
	"fmt"
	"io"
	"math/big"
	"os"
	"os/exec"
	"strings"
	"time"
)

// SolverKind selects the back end.
type SolverKind string

const (
	Z3    SolverKind = "z3"
	Z3New SolverKind = "z3-new"
	CVC5  SolverKind = "cvc5"
)

type Verdict int

const (
	Unsat Verdict = iota
	Sat
	Unknown
)

func (v Verdict) String() string {
	return [...]string{"unsat", "sat", "unknown"}[v]
}

// Solver wraps one long-lived SMT solver process. All declarations and
// definitions are made inside the per-path scope and vanish at EndPath.
type Solver struct {
	Kind    SolverKind
	cmd     *exec.Cmd
	in      io.WriteCloser
	out     *bufio.Reader
	defined map[*Term]bool
	vars    []*Term
	inPath  bool
	// scope stack: one scope per trace record of the current path; kept
	// between paths so that a path sharing a decision prefix with the
	// previous one re-uses the solver state of that prefix
	defsAt [][]*Term
	nvarAt []int
	baseDefs []*Term
	Queries int
	Time    time.Duration
	Errors  int
	// transcript of the current path (declarations, definitions, asserts);
	// kept so that assertion queries can be re-issued to other solvers.
	script     []string
	keepScript bool
	TimeoutMs  int
	ModelTime  time.Duration
	Models     int
}

func NewSolver(kind SolverKind, timeoutMs int) (*Solver, error) {
	var cmd *exec.Cmd
	switch kind {
	case Z3, Z3New:
		cmd = exec.Command(string(kind), "-in", fmt.Sprintf("-t:%d", timeoutMs))
	case CVC5:
		cmd = exec.Command("cvc5", "--incremental", "--lang=smt2", "--produce-models", fmt.Sprintf("--tlimit-per=%d", timeoutMs))
	default:
		return nil, fmt.Errorf("unknown solver %q", kind)
	}
	in, err := cmd.StdinPipe()
	if err != nil {
		return nil, err
	}
	out, err := cmd.StdoutPipe()
	if err != nil {
		return nil, err
	}
	cmd.Stderr = cmd.Stdout
	if err := cmd.Start(); err != nil {
		return nil, err
	}
	s := &Solver{Kind: kind, cmd: cmd, in: in, out: bufio.NewReaderSize(out, 1<<16), defined: map[*Term]bool{}, TimeoutMs: timeoutMs}
	if kind == CVC5 {
		s.raw("(set-logic QF_BV)")
	}
	s.raw("(set-option :produce-models true)")
	// round trip to make sure the process is alive
	s.raw("(echo \"ready\")")
	line, err := s.out.ReadString('\n')
	if err != nil || !strings.Contains(line, "ready") {
		return nil, fmt.Errorf("solver %s did not start: %q %v", kind, line, err)
	}
	return s, nil
}

func (s *Solver) Close() {
	if s == nil || s.cmd == nil {
		return
	}
	s.raw("(exit)")
	s.in.Close()
	done := make(chan struct{})
	go func() { s.cmd.Wait(); close(done) }()
	select {
	case <-done:
	case <-time.After(2 * time.Second):
		s.cmd.Process.Kill()
	}
	s.cmd = nil
}

var dumpFile *os.File

func (s *Solver) raw(line string) {
	if dumpFile != nil {
		dumpFile.WriteString(line + "\n")
	}
	io.WriteString(s.in, line)
	io.WriteString(s.in, "\n")
}

func init() {
	if p := os.Getenv("GOSMT_DUMP"); p != "" {
		dumpFile, _ = os.Create(p)
	}
}

func (s *Solver) send(line string) {
	if s.keepScript {
		s.script = append(s.script, line)
	}
	s.raw(line)
}

// Level is the number of open scopes.
func (s *Solver) Level() int { return len(s.defsAt) }

// PushScope opens one scope (one per trace record).
func (s *Solver) PushScope() {
	s.defsAt = append(s.defsAt, nil)
	s.nvarAt = append(s.nvarAt, len(s.vars))
	s.send("(push 1)")
}

// PopTo closes scopes down to level k and forgets what was defined in them.
func (s *Solver) PopTo(k int) {
	n := len(s.defsAt) - k
	if n <= 0 {
		return
	}
	s.raw(fmt.Sprintf("(pop %d)", n))
	for i := len(s.defsAt) - 1; i >= k; i-- {
		for _, t := range s.defsAt[i] {
			delete(s.defined, t)
		}
	}
	s.vars = s.vars[:s.nvarAt[k]]
	s.defsAt = s.defsAt[:k]
	s.nvarAt = s.nvarAt[:k]
	if s.keepScript {
		// rebuild transcript: drop everything after the k-th push
		cnt := 0
		cut := len(s.script)
		for i, l := range s.script {
			if l == "(push 1)" {
				if cnt == k {
					cut = i
					break
				}
				cnt++
			}
		}
		s.script = s.script[:cut]
	}
}

// BeginPath / EndPath bracket one path (scopes persist between paths).
func (s *Solver) BeginPath() { s.inPath = true }
func (s *Solver) EndPath()   { s.inPath = false }

// ResetAll drops every scope (used when the term factory is replaced).
func (s *Solver) ResetAll() {
	s.PopTo(0)
	// level-0 definitions
	s.raw("(reset)")
	if s.Kind == CVC5 {
		s.raw("(set-logic QF_BV)")
	}
	s.raw("(set-option :produce-models true)")
	for k := range s.defined {
		delete(s.defined, k)
	}
	s.vars = s.vars[:0]
	s.script = s.script[:0]
}

func (s *Solver) noteDef(t *Term) {
	s.defined[t] = true
	if n := len(s.defsAt); n > 0 {
		s.defsAt[n-1] = append(s.defsAt[n-1], t)
	} else {
		s.baseDefs = append(s.baseDefs, t)
	}
}

// define makes sure t (and its sub-terms) are known to the solver.
func (s *Solver) define(t *Term) {
	if s.defined[t] {
		return
	}
	switch t.op {
	case OpConst:
		return
	case OpVar:
		s.noteDef(t)
		s.vars = append(s.vars, t)
		s.send(fmt.Sprintf("(declare-const %s %s)", t.name, sortOf(t.w)))
		return
	}
	for i := 0; i < t.n; i++ {
		s.define(t.a[i])
	}
	s.noteDef(t)
	s.send(fmt.Sprintf("(define-fun %s () %s %s)", t.ref(), sortOf(t.w), t.body()))
}

// Assert adds t to the path condition.
func (s *Solver) Assert(t *Term) {
	s.define(t)
	s.send("(assert " + t.ref() + ")")
}

func (s *Solver) readVerdict() Verdict {
	for {
		line, err := s.out.ReadString('\n')
		if err != nil {
			s.Errors++
			return Unknown
		}
		line = strings.TrimSpace(line)
		switch {
		case line == "sat":
			return Sat
		case line == "unsat":
			return Unsat
		case line == "unknown" || line == "timeout":
			return Unknown
		case strings.HasPrefix(line, "(error"):
			s.Errors++
			// keep reading: the verdict line follows only for some errors;
			// treat as inconclusive and resynchronise with an echo.
			s.raw("(echo \"sync\")")
			for {
				l2, err := s.out.ReadString('\n')
				if err != nil || strings.Contains(l2, "sync") {
					break
				}
			}
			return Unknown
		case line == "":
			continue
		}
	}
}

// Check decides pc ∧ extra (extra may be nil); negate applies to extra.
func (s *Solver) Check(extra *Term, negate bool) Verdict {
	t0 := time.Now()
	defer func() { s.Time += time.Since(t0); s.Queries++ }()
	if extra == nil {
		s.raw("(check-sat)")
		return s.readVerdict()
	}
	s.define(extra)
	lit := extra.ref()
	if negate {
		lit = "(not " + lit + ")"
	}
	if extra.leaf() && extra.op == OpConst {
		// check-sat-assuming needs a literal; use push/assert
		s.raw("(push 1)")
		s.raw("(assert " + lit + ")")
		s.raw("(check-sat)")
		v := s.readVerdict()
		s.raw("(pop 1)")
		return v
	}
	s.raw("(check-sat-assuming (" + lit + "))")
	return s.readVerdict()
}

// readSexp reads one balanced s-expression from the solver.
func (s *Solver) readSexp() (string, error) {
	var sb strings.Builder
	depth := 0
	started := false
	for {
		line, err := s.out.ReadString('\n')
		if err != nil {
			return sb.String(), err
		}
		sb.WriteString(line)
		for _, ch := range line {
			if ch == '(' {
				depth++
				started = true
			} else if ch == ')' {
				depth--
			}
		}
		if started && depth <= 0 {
			return sb.String(), nil
		}
		if !started && strings.TrimSpace(line) != "" {
			return sb.String(), nil
		}
	}
}

// Model returns values of all variables declared on this path. It must be
// called right after a Check that returned Sat; cond/negate repeat that
// query because check-sat-assuming models need the same assumptions.
func (s *Solver) Model(extra *Term, negate bool) (map[string]*big.Int, bool) {
	if len(s.vars) == 0 {
		return map[string]*big.Int{}, true
	}
	s.raw("(push 1)")
	if extra != nil {
		s.define(extra)
		lit := extra.ref()
		if negate {
			lit = "(not " + lit + ")"
		}
		s.raw("(assert " + lit + ")")
	}
	s.raw("(check-sat)")
	t0 := time.Now()
	v := s.readVerdict()
	s.Time += time.Since(t0)
	s.ModelTime += time.Since(t0)
	s.Queries++
	if v != Sat {
		s.raw("(pop 1)")
		return nil, false
	}
	var names []string
	for _, t := range s.vars {
		names = append(names, t.name)
	}
	s.raw("(get-value (" + strings.Join(names, " ") + "))")
	t1 := time.Now()
	txt, err := s.readSexp()
	s.ModelTime += time.Since(t1)
	s.Models++
	s.raw("(pop 1)")
	if err != nil || strings.Contains(txt, "(error") {
		s.Errors++
		return nil, false
	}
	return parseModel(txt), true
}

// parseModel parses ((x #x00ff) (y true) (z (_ bv5 32)) ...).
func parseModel(txt string) map[string]*big.Int {
	res := map[string]*big.Int{}
	toks := tokenize(txt)
	// grammar: ( ( name value ) ... ), value = atom | ( _ bvN w )
	i := 0
	if i < len(toks) && toks[i] == "(" {
		i++
	}
	for i < len(toks) {
		if toks[i] != "(" {
			i++
			continue
		}
		i++
		if i >= len(toks) {
			break
		}
		name := toks[i]
		i++
		if i >= len(toks) {
			break
		}
		var val *big.Int
		if toks[i] == "(" {
			// (_ bvN w)
			if i+3 < len(toks) && toks[i+1] == "_" && strings.HasPrefix(toks[i+2], "bv") {
				val, _ = new(big.Int).SetString(toks[i+2][2:], 10)
			}
			for i < len(toks) && toks[i] != ")" {
				i++
			}
			i++
		} else {
			a := toks[i]
			i++
			switch {
			case a == "true":
				val = big.NewInt(1)
			case a == "false":
				val = big.NewInt(0)
			case strings.HasPrefix(a, "#x"):
				val, _ = new(big.Int).SetString(a[2:], 16)
			case strings.HasPrefix(a, "#b"):
				val, _ = new(big.Int).SetString(a[2:], 2)
			}
		}
		if val != nil {
			res[name] = val
		}
		// skip to closing paren of the pair
		for i < len(toks) && toks[i] != ")" {
			i++
		}
		i++
	}
	return res
}

func tokenize(s string) []string {
	var toks []string
	cur := strings.Builder{}
	flush := func() {
		if cur.Len() > 0 {
			toks = append(toks, cur.String())
			cur.Reset()
		}
	}
	for _, ch := range s {
		switch ch {
		case '(', ')':
			flush()
			toks = append(toks, string(ch))
		case ' ', '\n', '\t', '\r':
			flush()
		default:
			cur.WriteRune(ch)
		}
	}
	flush()
	return toks
}

// Script returns the transcript of the current path followed by a query
// for extra (negated if negate); used for cross-solver comparison.
func (s *Solver) Script(extra *Term, negate bool) []string {
	out := append([]string{}, s.script...)
	if extra != nil {
		// definitions needed for extra were sent through send() by define()
		s.define(extra)
		out = append([]string{}, s.script...)
		lit := extra.ref()
		if negate {
			lit = "(not " + lit + ")"
		}
		out = append(out, "(assert "+lit+")")
	}
	out = append(out, "(check-sat)")
	flat := out[:0:0]
	for _, l := range out {
		if l != "(push 1)" {
			flat = append(flat, l)
		}
	}
	return flat
}

// OneShot runs a stand-alone script in a fresh scope of this solver.
func (s *Solver) OneShot(lines []string) Verdict {
	t0 := time.Now()
	defer func() { s.Time += time.Since(t0); s.Queries++ }()
	s.raw("(push 1)")
	for _, l := range lines {
		s.raw(l)
	}
	v := s.readVerdict()
	s.raw("(pop 1)")
	return v
}
