package symx

import (
	"github.com/cespare/xxhash/v2"
	"bytes"
	"encoding/base64"
	"encoding/hex"
	"fmt"
	"go/token"
	"go/types"
	"math"
	"math/bits"
	"sort"
	"strconv"
	"strings"
	"unicode"
	"unicode/utf16"
	"unicode/utf8"

	"golang.org/x/tools/go/ssa"
)

// HarnessPkg is the import path of the harness API package (overlay-only).
const HarnessPkg = "github.com/yorkie-team/yorkie/internal/zzvsym"

// Packages executed from SSA.
var InterpPrefixes = []string{"github.com/yorkie-team/yorkie"}

// Pure-Go library packages executed from SSA (value: run the package init).
var InterpStd = map[string]bool{
	"slices":                   false,
	"maps":                     false,
	"cmp":                      false,
	"iter":                     false,
	"sort":                     false,
	"container/list":           false,
	"container/heap":           false,
	"encoding/binary":          false,
	"bytes":                    true,
	"io":                       true,
	"errors":                   false,
	"github.com/google/btree":  false,
	"unicode/utf16":            false,
	"unicode/utf8":             false,
	"context":                  false,
	"time":                     false,
	"strings":                  false,
	"strconv":                  false,
	"math":                     false,
	"math/bits":                false,
	"internal/stringslite":     false,
	"internal/bytealg":         false,
	"internal/itoa":            false,
	"connectrpc.com/connect":   false,
	"github.com/rs/xid":        false,
	"github.com/hashicorp/golang-lru/v2":           false,
	"github.com/hashicorp/golang-lru/v2/simplelru": false,
	"github.com/hashicorp/golang-lru/v2/internal":  false,
	"google.golang.org/protobuf/types/known/timestamppb": false,
	"google.golang.org/protobuf/types/known/wrapperspb":  false,
}

// Individual functions of otherwise opaque packages that are executed from SSA.
var InterpFuncs = map[string]bool{
	"(*fmt.wrapError).Error":     true,
	"(*fmt.wrapError).Unwrap":    true,
	"(*fmt.wrapErrors).Error":    true,
	"(*fmt.wrapErrors).Unwrap":   true,
	"(*errors.errorString).Error": true,
	"(*errors.joinError).Error":  true,
	"(*errors.joinError).Unwrap": true,
}

// yorkie packages whose init only registers things in heavy libraries.
var SkipInit = map[string]bool{
	"github.com/yorkie-team/yorkie/api/yorkie/v1":       true,
	"github.com/yorkie-team/yorkie/internal/validation": true,
	"github.com/yorkie-team/yorkie/server/logging":      true,
	"github.com/yorkie-team/yorkie/api/docs":            true,
}

func isYorkie(p string) bool {
	for _, pre := range InterpPrefixes {
		if strings.HasPrefix(p, pre) {
			return true
		}
	}
	return false
}

func initAllowed(pkgPath string) bool {
	if SkipInit[pkgPath] {
		return false
	}
	if isYorkie(pkgPath) {
		return true
	}
	return InterpStd[pkgPath]
}

func fnPkgPath(fn *ssa.Function) string {
	pkg := fn.Pkg
	if pkg == nil {
		if o := fn.Origin(); o != nil {
			pkg = o.Pkg
		}
	}
	if pkg == nil {
		if fn.Parent() != nil {
			return fnPkgPath(fn.Parent())
		}
		// synthetic wrapper / bound method / thunk: use the receiver's or object's package
		if obj := fn.Object(); obj != nil && obj.Pkg() != nil {
			return obj.Pkg().Path()
		}
		return ""
	}
	return pkg.Pkg.Path()
}

// Interpretable decides whether fn is executed from SSA.
func Interpretable(fn *ssa.Function) bool {
	if InterpFuncs[fn.String()] {
		return true
	}
	p := fnPkgPath(fn)
	if p == "" {
		return true // synthetic wrappers
	}
	if isYorkie(p) {
		return true
	}
	_, ok := InterpStd[p]
	return ok
}

var prefixExternals []struct {
	prefix string
	fn     externalFn
}

func externalsByPrefix(name string) externalFn {
	for _, p := range prefixExternals {
		if strings.HasPrefix(name, p.prefix) {
			return p.fn
		}
	}
	return nil
}

func noop(fr *frame, args []value) value { return nil }

func retFalse(fr *frame, args []value) value { return false }
func retTrue(fr *frame, args []value) value  { return true }

func zeroResult(fn *ssa.Function) value {
	res := fn.Signature.Results()
	switch res.Len() {
	case 0:
		return nil
	case 1:
		return zero(res.At(0).Type())
	}
	t := make(tuple, res.Len())
	for k := range t {
		t[k] = zero(res.At(k).Type())
	}
	return t
}

// ---- helpers -------------------------------------------------------------

func (i *interpreter) methodOf(t types.Type, name string) *ssa.Function {
	ms := i.prog.MethodSets.MethodSet(t)
	for k := 0; k < ms.Len(); k++ {
		sel := ms.At(k)
		if sel.Obj().Name() == name && sel.Obj().Exported() {
			return i.prog.MethodValue(sel)
		}
	}
	return nil
}

// callMethod invokes method name on the dynamic value of x; ok=false when
// the type has no such method.
func callMethod(fr *frame, x iface, name string, args ...value) (value, bool) {
	if x.t == nil {
		return nil, false
	}
	m := fr.i.methodOf(x.t, name)
	if m == nil {
		return nil, false
	}
	all := append([]value{x.v}, args...)
	return call(fr.i, fr, 0, m, all), true
}

func isErrorType(t types.Type) bool {
	return types.Implements(t, errorType.Underlying().(*types.Interface)) || implementsError(t)
}

var universeError = types.Universe.Lookup("error").Type()

func implementsError(t types.Type) bool {
	return types.Implements(t, universeError.Underlying().(*types.Interface))
}

func hasMethodSig(t types.Type, name string, nparams int) bool {
	ms := types.NewMethodSet(t)
	for k := 0; k < ms.Len(); k++ {
		o := ms.At(k).Obj()
		if o.Name() == name {
			sig := o.Type().(*types.Signature)
			return sig.Params().Len() == nparams
		}
	}
	return false
}

// fmtArg renders one operand of a format verb as a string value.
func fmtArg(fr *frame, verb byte, flags string, a value) value {
	cx := fr.i.cx
	itf, isIface := a.(iface)
	if !isIface {
		itf = iface{t: nil, v: a}
	}
	v := itf.v
	if isIface && itf.t == nil {
		if verb == 'v' || verb == 's' || verb == 'w' {
			return "<nil>"
		}
		return "%!" + string(verb) + "(<nil>)"
	}
	if verb == 'T' {
		return itf.t.String()
	}
	if verb == 'v' || verb == 's' || verb == 'w' || verb == 'q' {
		if itf.t != nil && flags != "#" {
			if implementsError(itf.t) {
				if p, ok := v.(*value); ok && p == nil {
					return "<nil>"
				}
				if r, ok := callMethod(fr, itf, "Error"); ok {
					return quoteIf(cx, verb, r)
				}
			}
			if hasMethodSig(itf.t, "String", 0) {
				if p, ok := v.(*value); ok && p == nil {
					return "<nil>"
				}
				if r, ok := callMethod(fr, itf, "String"); ok {
					return quoteIf(cx, verb, r)
				}
			}
		}
	}
	switch x := v.(type) {
	case string:
		if flags == "" || flags == "+" || flags == "#" {
			switch verb {
			case 's', 'v', 'w':
				if flags == "#" {
					return strconv.Quote(x)
				}
				return x
			case 'q':
				return strconv.Quote(x)
			case 'x':
				return hex.EncodeToString([]byte(x))
			}
		}
		return fmt.Sprintf("%"+flags+string(verb), x)
	case *symstr:
		if verb == 'q' {
			return strConcat(strConcat("\"", x), "\"")
		}
		return x
	case sym:
		switch verb {
		case 'd', 'v':
			if flags == "" {
				return cx.decString(x)
			}
		}
		c := cx.concValue(x)
		return fmtArg(fr, verb, flags, c)
	case symb:
		return fmtArg(fr, verb, flags, cx.truth(x))
	case bool, int, int8, int16, int32, int64, uint, uint8, uint16, uint32, uint64, uintptr, float32, float64:
		vb := verb
		if vb == 'w' {
			vb = 'v'
		}
		return fmt.Sprintf("%"+flags+string(vb), x)
	case []value:
		// []byte as %s / %x
		if itf.t != nil {
			if sl, ok := itf.t.Underlying().(*types.Slice); ok {
				if b, ok := sl.Elem().Underlying().(*types.Basic); ok && b.Kind() == types.Uint8 {
					allC := true
					for _, e := range x {
						if isSym(e) {
							allC = false
						}
					}
					if allC {
						return fmt.Sprintf("%"+flags+string(verb), bytesOf(x))
					}
					if verb == 'x' {
						return cx.bytesString(spHex, x)
					}
				}
			}
		}
		var parts value = "["
		for i, e := range x {
			if i > 0 {
				parts = strConcat(parts, " ")
			}
			parts = strConcat(parts, fmtArg(fr, verb, flags, e))
		}
		return strConcat(parts, "]")
	case array:
		var parts value = "["
		for i, e := range x {
			if i > 0 {
				parts = strConcat(parts, " ")
			}
			parts = strConcat(parts, fmtArg(fr, verb, flags, e))
		}
		return strConcat(parts, "]")
	case *value:
		if x == nil {
			return "<nil>"
		}
		return "0xPTR"
	case iface:
		return fmtArg(fr, verb, flags, x)
	case structure:
		var parts value = "{"
		for i, e := range x {
			if i > 0 {
				parts = strConcat(parts, " ")
			}
			parts = strConcat(parts, fmtArg(fr, 'v', "", e))
		}
		return strConcat(parts, "}")
	case *omap:
		return "map[...]"
	case nil:
		return "<nil>"
	}
	return toString(v)
}

func quoteIf(cx *pathCtx, verb byte, r value) value {
	if verb != 'q' {
		return r
	}
	if s, ok := r.(string); ok {
		return strconv.Quote(s)
	}
	return strConcat(strConcat("\"", r), "\"")
}

// sprintf implements the fmt verbs used by the code base.
// It returns the formatted string and the operands of %w verbs.
func sprintf(fr *frame, format string, args []value) (value, []value) {
	var out value = ""
	var wrapped []value
	argi := 0
	i := 0
	for i < len(format) {
		j := strings.IndexByte(format[i:], '%')
		if j < 0 {
			out = strConcat(out, format[i:])
			break
		}
		out = strConcat(out, format[i:i+j])
		i += j + 1
		if i >= len(format) {
			out = strConcat(out, "%!(NOVERB)")
			break
		}
		k := i
		for k < len(format) && strings.IndexByte("+-# 0123456789.", format[k]) >= 0 {
			k++
		}
		if k >= len(format) {
			out = strConcat(out, "%!(NOVERB)")
			break
		}
		flags := format[i:k]
		verb := format[k]
		i = k + 1
		if verb == '%' {
			out = strConcat(out, "%")
			continue
		}
		if argi >= len(args) {
			out = strConcat(out, "%!"+string(verb)+"(MISSING)")
			continue
		}
		a := args[argi]
		argi++
		if verb == 'w' {
			wrapped = append(wrapped, a)
		}
		out = strConcat(out, fmtArg(fr, verb, flags, a))
	}
	if argi < len(args) {
		out = strConcat(out, "%!(EXTRA)")
	}
	return out, wrapped
}

func (i *interpreter) fmtType(name string) types.Type {
	pkg := i.prog.ImportedPackage("fmt")
	if pkg == nil {
		panic("fmt package not loaded")
	}
	return pkg.Type(name).Object().Type()
}

func ext۰fmt۰Errorf(fr *frame, args []value) value {
	format, ok := args[0].(string)
	if !ok {
		fr.i.cx.unsupported("symbolic format string")
	}
	msg, wrapped := sprintf(fr, format, args[1].([]value))
	var errs []value
	for _, w := range wrapped {
		if itf, ok := w.(iface); ok && itf.t != nil && implementsError(itf.t) {
			errs = append(errs, itf)
		}
	}
	switch len(errs) {
	case 0:
		return fr.i.newError(msg)
	case 1:
		var s value = structure{msg, errs[0]}
		return iface{t: types.NewPointer(fr.i.fmtType("wrapError")), v: &s}
	}
	var s value = structure{msg, errs}
	return iface{t: types.NewPointer(fr.i.fmtType("wrapErrors")), v: &s}
}

func ext۰fmt۰Sprintf(fr *frame, args []value) value {
	format, ok := args[0].(string)
	if !ok {
		fr.i.cx.unsupported("symbolic format string")
	}
	s, _ := sprintf(fr, format, args[1].([]value))
	return s
}

func ext۰fmt۰Sprint2(fr *frame, args []value) value {
	var out value = ""
	prevStr := true
	for i, a := range args[0].([]value) {
		isS := false
		if itf, ok := a.(iface); ok {
			isS = isStr(itf.v)
		}
		if i > 0 && !isS && !prevStr {
			out = strConcat(out, " ")
		}
		out = strConcat(out, fmtArg(fr, 'v', "", a))
		prevStr = isS
	}
	return out
}

func ext۰fmt۰Sprintln(fr *frame, args []value) value {
	var out value = ""
	for i, a := range args[0].([]value) {
		if i > 0 {
			out = strConcat(out, " ")
		}
		out = strConcat(out, fmtArg(fr, 'v', "", a))
	}
	return strConcat(out, "\n")
}

func errorsIs(fr *frame, err, target iface, depth int) bool {
	if depth > 64 {
		fr.i.cx.abort("unwind-exceeded", "errors.Is chain")
	}
	if err.t == nil || target.t == nil {
		return err.t == nil && target.t == nil
	}
	comparable := types.Comparable(target.t)
	for n := 0; n < 64; n++ {
		if comparable && sameType(err.t, target.t) {
			if fr.i.cx.decide(fr.i.cx.eqTerm(err.t, err.v, target.v)) {
				return true
			}
		}
		if hasMethodSig(err.t, "Is", 1) {
			if r, ok := callMethod(fr, err, "Is", target); ok && fr.i.cx.truth(r) {
				return true
			}
		}
		if !hasMethodSig(err.t, "Unwrap", 0) {
			return false
		}
		r, ok := callMethod(fr, err, "Unwrap")
		if !ok {
			return false
		}
		switch r := r.(type) {
		case iface:
			if r.t == nil {
				return false
			}
			err = r
		case []value:
			for _, e := range r {
				if e.(iface).t == nil {
					continue
				}
				if errorsIs(fr, e.(iface), target, depth+1) {
					return true
				}
			}
			return false
		default:
			return false
		}
	}
	return false
}

func ext۰errors۰Is(fr *frame, args []value) value {
	return errorsIs(fr, args[0].(iface), args[1].(iface), 0)
}

func errorsAs(fr *frame, err iface, target iface, depth int) bool {
	if err.t == nil {
		return false
	}
	ptr, ok := target.t.Underlying().(*types.Pointer)
	if !ok {
		panic(targetPanic{fr.i.newError("errors: target must be a non-nil pointer")})
	}
	tt := ptr.Elem()
	cell := target.v.(*value)
	for n := 0; n < 64; n++ {
		if types.AssignableTo(err.t, tt) {
			if _, isI := tt.Underlying().(*types.Interface); isI {
				*cell = err
			} else {
				store(tt, cell, err.v)
			}
			return true
		}
		if hasMethodSig(err.t, "As", 1) {
			if r, ok := callMethod(fr, err, "As", target); ok && fr.i.cx.truth(r) {
				return true
			}
		}
		if !hasMethodSig(err.t, "Unwrap", 0) {
			return false
		}
		r, ok := callMethod(fr, err, "Unwrap")
		if !ok {
			return false
		}
		switch r := r.(type) {
		case iface:
			if r.t == nil {
				return false
			}
			err = r
		case []value:
			for _, e := range r {
				if e.(iface).t != nil && errorsAs(fr, e.(iface), target, depth+1) {
					return true
				}
			}
			return false
		default:
			return false
		}
	}
	return false
}

func ext۰errors۰As(fr *frame, args []value) value {
	return errorsAs(fr, args[0].(iface), args[1].(iface), 0)
}

func ext۰errors۰Unwrap(fr *frame, args []value) value {
	err := args[0].(iface)
	if err.t == nil || !hasMethodSig(err.t, "Unwrap", 0) {
		return iface{}
	}
	r, ok := callMethod(fr, err, "Unwrap")
	if !ok {
		return iface{}
	}
	if i, ok := r.(iface); ok {
		return i
	}
	return iface{}
}

// ---- strings.Builder as a side table --------------------------------------

func (cx *pathCtx) builder(p value) *value {
	key := p.(*value)
	if cx.builders == nil {
		cx.builders = map[*value]*value{}
	}
	b, ok := cx.builders[key]
	if !ok {
		var s value = ""
		b = &s
		cx.builders[key] = b
	}
	return b
}

func sbWriteString(fr *frame, args []value) value {
	b := fr.i.cx.builder(args[0])
	*b = strConcat(*b, args[1])
	if s, ok := args[1].(string); ok {
		return tuple{len(s), iface{}}
	}
	return tuple{0, iface{}}
}

func sbWriteByte(fr *frame, args []value) value {
	b := fr.i.cx.builder(args[0])
	c := fr.i.cx.conc(args[1])
	*b = strConcat(*b, string([]byte{byte(c)}))
	return iface{}
}

func sbWriteRune(fr *frame, args []value) value {
	b := fr.i.cx.builder(args[0])
	r := rune(fr.i.cx.conc(args[1]))
	s := string(r)
	*b = strConcat(*b, s)
	return tuple{len(s), iface{}}
}

func sbWrite(fr *frame, args []value) value {
	b := fr.i.cx.builder(args[0])
	bs := args[1].([]value)
	for _, e := range bs {
		if isSym(e) {
			fr.i.cx.unsupported("strings.Builder.Write of symbolic bytes")
		}
	}
	*b = strConcat(*b, string(bytesOf(bs)))
	return tuple{len(bs), iface{}}
}

func sbString(fr *frame, args []value) value { return *fr.i.cx.builder(args[0]) }
func sbLen(fr *frame, args []value) value    { return fr.i.cx.strLen(*fr.i.cx.builder(args[0])) }
func sbReset(fr *frame, args []value) value {
	*fr.i.cx.builder(args[0]) = ""
	return nil
}

// ---- sort ------------------------------------------------------------------

func sortSliceImpl(fr *frame, sl []value, less value) {
	cx := fr.i.cx
	// insertion sort driven by the interpreted less(i, j): deterministic and
	// forks on symbolic comparisons.
	for i := 1; i < len(sl); i++ {
		for j := i; j > 0; j-- {
			r := call(fr.i, fr, 0, less, []value{j, j - 1})
			if !cx.truth(r) {
				break
			}
			sl[j], sl[j-1] = sl[j-1], sl[j]
		}
	}
}

func ext۰sort۰Slice(fr *frame, args []value) value {
	itf := args[0].(iface)
	sl, ok := itf.v.([]value)
	if !ok {
		fr.i.cx.unsupported("sort.Slice on non-slice")
	}
	sortSliceImpl(fr, sl, args[1])
	return nil
}

func ext۰sort۰Strings2(fr *frame, args []value) value {
	sl := args[0].([]value)
	ss := make([]string, len(sl))
	for i, e := range sl {
		s, ok := e.(string)
		if !ok {
			fr.i.cx.unsupported("sort.Strings on symbolic strings")
		}
		ss[i] = s
	}
	sort.Strings(ss)
	for i := range sl {
		sl[i] = ss[i]
	}
	return nil
}

// ---- bytes / bytealg -----------------------------------------------------------

func (cx *pathCtx) cmpBytes(a, b []value) value {
	anySym := false
	for _, v := range a {
		anySym = anySym || isSym(v)
	}
	for _, v := range b {
		anySym = anySym || isSym(v)
	}
	if !anySym {
		return bytes.Compare(bytesOf(a), bytesOf(b))
	}
	n := len(a)
	if len(b) < n {
		n = len(b)
	}
	if n > 0 {
		ta, _ := cx.bytesTerm(a[:n])
		tb, _ := cx.bytesTerm(b[:n])
		if cx.decide(cx.f.Cmp(OpULt, ta, tb)) {
			return -1
		}
		if !cx.decide(cx.f.Cmp(OpEq, ta, tb)) {
			return 1
		}
	}
	switch {
	case len(a) < len(b):
		return -1
	case len(a) > len(b):
		return 1
	}
	return 0
}

func ext۰bytes۰Compare(fr *frame, args []value) value {
	return fr.i.cx.cmpBytes(args[0].([]value), args[1].([]value))
}

func ext۰bytes۰Equal2(fr *frame, args []value) value {
	a, b := args[0].([]value), args[1].([]value)
	if len(a) != len(b) {
		return false
	}
	if len(a) == 0 {
		return true
	}
	cx := fr.i.cx
	ta, ok1 := cx.bytesTerm(a)
	tb, ok2 := cx.bytesTerm(b)
	if !ok1 || !ok2 {
		cx.unsupported("bytes.Equal on non-bytes")
	}
	return cx.fromBoolTerm(cx.f.Cmp(OpEq, ta, tb))
}

func ext۰hex۰EncodeToString(fr *frame, args []value) value {
	return fr.i.cx.bytesString(spHex, args[0].([]value))
}

func b64Encoding(fr *frame, p value) *base64.Encoding {
	ptr := p.(*value)
	if ptr == nil {
		fr.i.cx.abort("engine-error", "nil base64 encoding")
	}
	st := (*ptr).(structure)
	name, _ := st[0].(string)
	switch name {
	case "StdEncoding":
		return base64.StdEncoding
	case "RawStdEncoding":
		return base64.RawStdEncoding
	case "URLEncoding":
		return base64.URLEncoding
	case "RawURLEncoding":
		return base64.RawURLEncoding
	}
	fr.i.cx.abort("unsupported", "custom base64 encoding")
	return nil
}

func ext۰b64۰EncodeToString(fr *frame, args []value) value {
	enc := b64Encoding(fr, args[0])
	bs := args[1].([]value)
	for _, e := range bs {
		if isSym(e) {
			if enc != base64.RawStdEncoding {
				fr.i.cx.unsupported("non-raw-std base64 of symbolic bytes")
			}
			return fr.i.cx.bytesString(spB64, bs)
		}
	}
	return enc.EncodeToString(bytesOf(bs))
}

func ext۰b64۰DecodeString(fr *frame, args []value) value {
	enc := b64Encoding(fr, args[0])
	if ss, isS := args[1].(*symstr); isS {
		if len(ss.parts) == 1 && ss.parts[0].kind == spB64 && enc == base64.RawStdEncoding {
			return tuple{fr.i.cx.symBytes(ss.parts[0].t), iface{}}
		}
	}
	s, ok := args[1].(string)
	if !ok {
		fr.i.cx.unsupported("base64 decode of symbolic string")
	}
	out, err := enc.DecodeString(s)
	var res []value
	if out != nil {
		res = make([]value, len(out))
		for i, b := range out {
			res[i] = b
		}
	}
	if err != nil {
		return tuple{res, fr.i.newError(err.Error())}
	}
	return tuple{res, iface{}}
}

func ext۰hex۰DecodeString(fr *frame, args []value) value {
	if ss, isS := args[0].(*symstr); isS {
		if len(ss.parts) == 1 && ss.parts[0].kind == spHex {
			return tuple{fr.i.cx.symBytes(ss.parts[0].t), iface{}}
		}
	}
	s, ok := args[0].(string)
	if !ok {
		fr.i.cx.unsupported("hex decode of symbolic string")
	}
	out, err := hex.DecodeString(s)
	res := make([]value, len(out))
	for i, b := range out {
		res[i] = b
	}
	if err != nil {
		return tuple{res, fr.i.newError(err.Error())}
	}
	return tuple{res, iface{}}
}

// ---- strconv -------------------------------------------------------------------

func ext۰strconv۰FormatInt(fr *frame, args []value) value {
	cx := fr.i.cx
	base := cx.conc(args[1])
	if s, ok := args[0].(sym); ok && base == 10 {
		return cx.decString(s)
	}
	return strconv.FormatInt(cx.conc(args[0]), int(base))
}

func ext۰strconv۰FormatUint(fr *frame, args []value) value {
	cx := fr.i.cx
	base := cx.conc(args[1])
	if s, ok := args[0].(sym); ok && base == 10 {
		return cx.decString(s)
	}
	return strconv.FormatUint(uint64(cx.conc(args[0])), int(base))
}

func ext۰strconv۰Itoa2(fr *frame, args []value) value {
	if s, ok := args[0].(sym); ok {
		return fr.i.cx.decString(s)
	}
	return strconv.Itoa(args[0].(int))
}

// ---- sync / atomic: single goroutine ------------------------------------------

func atomicCell(p value) *value { return p.(*value) }

func onceDo(fr *frame, args []value) value {
	cx := fr.i.cx
	key := args[0].(*value)
	if cx.onces == nil {
		cx.onces = map[*value]bool{}
	}
	if cx.onces[key] {
		return nil
	}
	cx.onces[key] = true
	call(fr.i, fr, 0, args[1], nil)
	return nil
}

// atomic.Int32/Int64/Uint32/Uint64/Bool/Pointer methods operate on field "v".
func atomicField(p value) *value {
	st := (*p.(*value)).(structure)
	return &st[len(st)-1]
}

func init() {
	ext := map[string]externalFn{
		// fmt / errors
		"fmt.Errorf":    ext۰fmt۰Errorf,
		"fmt.Sprintf":   ext۰fmt۰Sprintf,
		"fmt.Sprint":    ext۰fmt۰Sprint2,
		"fmt.Sprintln":  ext۰fmt۰Sprintln,
		"fmt.Println":   func(fr *frame, args []value) value { return tuple{0, iface{}} },
		"fmt.Printf":    func(fr *frame, args []value) value { return tuple{0, iface{}} },
		"fmt.Fprintln":  func(fr *frame, args []value) value { return tuple{0, iface{}} },
		"fmt.Fprintf":   func(fr *frame, args []value) value { return tuple{0, iface{}} },
		"fmt.Fprint":    func(fr *frame, args []value) value { return tuple{0, iface{}} },
		"errors.New":    func(fr *frame, args []value) value { return fr.i.newError(args[0]) },
		"errors.Is":     ext۰errors۰Is,
		"errors.As":     ext۰errors۰As,
		"errors.Unwrap": ext۰errors۰Unwrap,

		// strings.Builder
		"(*strings.Builder).WriteString": sbWriteString,
		"(*strings.Builder).WriteByte":   sbWriteByte,
		"(*strings.Builder).WriteRune":   sbWriteRune,
		"(*strings.Builder).Write":       sbWrite,
		"(*strings.Builder).String":      sbString,
		"(*strings.Builder).Len":         sbLen,
		"(*strings.Builder).Reset":       sbReset,
		"(*strings.Builder).Grow":        noop,

		// strings (concrete)
		"strings.Join":         intrStringsJoin,
		"strings.Split":        bridge(strings.Split),
		"strings.SplitN":       bridge(strings.SplitN),
		"strings.Contains":     bridge(strings.Contains),
		"strings.ContainsAny":  bridge(strings.ContainsAny),
		"strings.ContainsRune": bridge(strings.ContainsRune),
		"strings.HasPrefix":    bridge(strings.HasPrefix),
		"strings.HasSuffix":    bridge(strings.HasSuffix),
		"strings.TrimPrefix":   bridge(strings.TrimPrefix),
		"strings.TrimSuffix":   bridge(strings.TrimSuffix),
		"strings.TrimSpace":    bridge(strings.TrimSpace),
		"strings.Trim":         bridge(strings.Trim),
		"strings.TrimLeft":     bridge(strings.TrimLeft),
		"strings.TrimRight":    bridge(strings.TrimRight),
		"strings.Repeat":       bridge(strings.Repeat),
		"strings.Replace":      bridge(strings.Replace),
		"strings.ReplaceAll":   bridge(strings.ReplaceAll),
		"strings.ToLower":      bridge(strings.ToLower),
		"strings.ToUpper":      bridge(strings.ToUpper),
		"strings.Index":        bridge(strings.Index),
		"strings.IndexByte":    bridge(strings.IndexByte),
		"strings.IndexRune":    bridge(strings.IndexRune),
		"strings.IndexAny":     bridge(strings.IndexAny),
		"strings.LastIndex":    bridge(strings.LastIndex),
		"strings.LastIndexByte": bridge(strings.LastIndexByte),
		"strings.Count":        bridge(strings.Count),
		"strings.EqualFold":    bridge(strings.EqualFold),
		"strings.Fields":       bridge(strings.Fields),
		"strings.Compare":      bridge(strings.Compare),
		"strings.Title":        bridge(strings.Title),
		"strings.Cut": func(fr *frame, args []value) value {
			s, ok1 := args[0].(string)
			sep, ok2 := args[1].(string)
			if !ok1 || !ok2 {
				fr.i.cx.unsupported("strings.Cut on symbolic string")
			}
			a, b, f := strings.Cut(s, sep)
			return tuple{a, b, f}
		},

		// strconv
		"strconv.Itoa":        ext۰strconv۰Itoa2,
		"strconv.FormatInt":   ext۰strconv۰FormatInt,
		"strconv.FormatUint":  ext۰strconv۰FormatUint,
		"strconv.FormatBool":  bridge(strconv.FormatBool),
		"strconv.FormatFloat": bridge(strconv.FormatFloat),
		"strconv.Quote":       bridge(strconv.Quote),
		"strconv.Unquote":     bridge(strconv.Unquote),
		"strconv.Atoi":        bridge(strconv.Atoi),
		"strconv.ParseInt":    bridge(strconv.ParseInt),
		"strconv.ParseUint":   bridge(strconv.ParseUint),
		"strconv.ParseFloat":  bridge(strconv.ParseFloat),
		"strconv.ParseBool":   bridge(strconv.ParseBool),
		"strconv.AppendInt":   bridge(strconv.AppendInt),
		"strconv.AppendQuote": bridge(strconv.AppendQuote),

		// bytes / hex / base64
		"bytes.Compare":                          ext۰bytes۰Compare,
		"internal/bytealg.Compare":               ext۰bytes۰Compare,
		"bytes.Equal":                            ext۰bytes۰Equal2,
		"internal/bytealg.Equal":                 ext۰bytes۰Equal2,
		"internal/bytealg.MakeNoZero":            func(fr *frame, args []value) value { n := fr.i.cx.conc(args[0]); s := make([]value, n); for i := range s { s[i] = uint8(0) }; return s },
		"internal/bytealg.IndexByte":             bridge(bytes.IndexByte),
		"internal/bytealg.IndexByteString":       bridge(strings.IndexByte),
		"internal/bytealg.Count":                 func(fr *frame, args []value) value { return bridge(func(b []byte, c byte) int { return bytes.Count(b, []byte{c}) })(fr, args) },
		"internal/bytealg.CountString":           func(fr *frame, args []value) value { return bridge(func(s string, c byte) int { return strings.Count(s, string([]byte{c})) })(fr, args) },
		"internal/abi.NoEscape":                  func(fr *frame, args []value) value { return args[0] },
		"internal/abi.Escape":                    func(fr *frame, args []value) value { return args[0] },
		"encoding/hex.EncodeToString":            ext۰hex۰EncodeToString,
		"encoding/hex.DecodeString":              ext۰hex۰DecodeString,
		"(*encoding/base64.Encoding).EncodeToString": ext۰b64۰EncodeToString,
		"(*encoding/base64.Encoding).DecodeString":   ext۰b64۰DecodeString,

		// sort
		"sort.Slice":       ext۰sort۰Slice,
		"sort.SliceStable": ext۰sort۰Slice,
		"sort.Strings":     ext۰sort۰Strings2,

		// unicode
		"unicode/utf16.Encode":     bridge(utf16.Encode),
		"unicode/utf16.Decode":     bridge(utf16.Decode),
		"unicode/utf16.IsSurrogate": bridge(utf16.IsSurrogate),
		"unicode/utf16.RuneLen":    bridge(utf16.RuneLen),
		"unicode/utf8.RuneCountInString": bridge(utf8.RuneCountInString),
		"unicode/utf8.RuneLen":     bridge(utf8.RuneLen),
		"unicode/utf8.ValidString": bridge(utf8.ValidString),
		"unicode/utf8.RuneError":   nil,
		"unicode.IsSpace":          bridge(unicode.IsSpace),
		"unicode.IsLetter":         bridge(unicode.IsLetter),
		"unicode.IsDigit":          bridge(unicode.IsDigit),
		"unicode.IsUpper":          bridge(unicode.IsUpper),
		"unicode.IsLower":          bridge(unicode.IsLower),
		"unicode.ToLower":          bridge(unicode.ToLower),
		"unicode.ToUpper":          bridge(unicode.ToUpper),
		"unicode.IsPrint":          bridge(unicode.IsPrint),
		"unicode.IsControl":        bridge(unicode.IsControl),

		// math
		"math/bits.Len64":           bridge(bits.Len64),
		"math/bits.Len32":           bridge(bits.Len32),
		"math/bits.Len":             bridge(bits.Len),
		"math/bits.LeadingZeros64":  bridge(bits.LeadingZeros64),
		"math/bits.LeadingZeros32":  bridge(bits.LeadingZeros32),
		"math/bits.TrailingZeros64": bridge(bits.TrailingZeros64),
		"math/bits.TrailingZeros32": bridge(bits.TrailingZeros32),
		"math/bits.OnesCount64":     bridge(bits.OnesCount64),
		"math/bits.RotateLeft64":    bridge(bits.RotateLeft64),
		"math/bits.RotateLeft32":    bridge(bits.RotateLeft32),
		"math.Floor":                bridge(math.Floor),
		"math.Ceil":                 bridge(math.Ceil),
		"math.Pow":                  bridge(math.Pow),
		"math.Log2":                 bridge(math.Log2),
		"math.Max":                  bridge(math.Max),
		"math.Round":                bridge(math.Round),
		"math.Trunc":                bridge(math.Trunc),
		"math.IsInf":                bridge(math.IsInf),
		"math.Mod":                  bridge(math.Mod),
		"github.com/cespare/xxhash/v2.Sum64String": bridge(xxhash.Sum64String),
		"github.com/cespare/xxhash/v2.Sum64":       bridge(xxhash.Sum64),

		// sync: one goroutine, locks are no-ops (mutual exclusion is an assumption)
		"(*sync.Mutex).Lock":      noop,
		"(*sync.Mutex).Unlock":    noop,
		"(*sync.Mutex).TryLock":   retTrue,
		"(*sync.RWMutex).Lock":    noop,
		"(*sync.RWMutex).Unlock":  noop,
		"(*sync.RWMutex).RLock":   noop,
		"(*sync.RWMutex).RUnlock": noop,
		"(*sync.RWMutex).TryLock": retTrue,
		"(*sync.RWMutex).TryRLock": retTrue,
		"(*sync.WaitGroup).Add":   noop,
		"(*sync.WaitGroup).Done":  noop,
		"(*sync.WaitGroup).Wait":  noop,
		"(*sync.Once).Do":         onceDo,
		"runtime.SetFinalizer":    noop,
		"runtime.KeepAlive":       noop,

		"sync/atomic.AddInt32":    func(fr *frame, args []value) value { p := atomicCell(args[0]); *p = binop(fr.i.cx, token.ADD, nil, *p, args[1]); return *p },
		"sync/atomic.AddInt64":    func(fr *frame, args []value) value { p := atomicCell(args[0]); *p = binop(fr.i.cx, token.ADD, nil, *p, args[1]); return *p },
		"sync/atomic.AddUint32":   func(fr *frame, args []value) value { p := atomicCell(args[0]); *p = binop(fr.i.cx, token.ADD, nil, *p, args[1]); return *p },
		"sync/atomic.AddUint64":   func(fr *frame, args []value) value { p := atomicCell(args[0]); *p = binop(fr.i.cx, token.ADD, nil, *p, args[1]); return *p },
		"sync/atomic.LoadInt32":   func(fr *frame, args []value) value { return *atomicCell(args[0]) },
		"sync/atomic.LoadInt64":   func(fr *frame, args []value) value { return *atomicCell(args[0]) },
		"sync/atomic.LoadUint32":  func(fr *frame, args []value) value { return *atomicCell(args[0]) },
		"sync/atomic.LoadUint64":  func(fr *frame, args []value) value { return *atomicCell(args[0]) },
		"sync/atomic.StoreInt32":  func(fr *frame, args []value) value { *atomicCell(args[0]) = args[1]; return nil },
		"sync/atomic.StoreInt64":  func(fr *frame, args []value) value { *atomicCell(args[0]) = args[1]; return nil },
		"sync/atomic.StoreUint32": func(fr *frame, args []value) value { *atomicCell(args[0]) = args[1]; return nil },
		"sync/atomic.StoreUint64": func(fr *frame, args []value) value { *atomicCell(args[0]) = args[1]; return nil },

		"(*sync/atomic.Bool).Load":  func(fr *frame, args []value) value { v, _ := (*atomicField(args[0])).(uint32); return v != 0 },
		"(*sync/atomic.Bool).Store": func(fr *frame, args []value) value { v := uint32(0); if fr.i.cx.truth(args[1]) { v = 1 }; *atomicField(args[0]) = v; return nil },
		"(*sync/atomic.Int32).Load":  func(fr *frame, args []value) value { return *atomicField(args[0]) },
		"(*sync/atomic.Int32).Store": func(fr *frame, args []value) value { *atomicField(args[0]) = args[1]; return nil },
		"(*sync/atomic.Int32).Add":   func(fr *frame, args []value) value { p := atomicField(args[0]); *p = binop(fr.i.cx, token.ADD, nil, *p, args[1]); return *p },
		"(*sync/atomic.Int64).Load":  func(fr *frame, args []value) value { return *atomicField(args[0]) },
		"(*sync/atomic.Int64).Store": func(fr *frame, args []value) value { *atomicField(args[0]) = args[1]; return nil },
		"(*sync/atomic.Int64).Add":   func(fr *frame, args []value) value { p := atomicField(args[0]); *p = binop(fr.i.cx, token.ADD, nil, *p, args[1]); return *p },
		"(*sync/atomic.Uint32).Load":  func(fr *frame, args []value) value { return *atomicField(args[0]) },
		"(*sync/atomic.Uint32).Store": func(fr *frame, args []value) value { *atomicField(args[0]) = args[1]; return nil },
		"(*sync/atomic.Uint64).Load":  func(fr *frame, args []value) value { return *atomicField(args[0]) },
		"(*sync/atomic.Uint64).Store": func(fr *frame, args []value) value { *atomicField(args[0]) = args[1]; return nil },
		"(*sync/atomic.Uint64).Add":   func(fr *frame, args []value) value { p := atomicField(args[0]); *p = binop(fr.i.cx, token.ADD, nil, *p, args[1]); return *p },
	}
	for k, v := range ext {
		if v == nil {
			delete(externals, k)
			continue
		}
		externals[k] = v
	}
}

// intrStringsJoin concatenates possibly symbolic strings.
func intrStringsJoin(fr *frame, args []value) value {
	elems, _ := args[0].([]value)
	var out value = ""
	for i, e := range elems {
		if i > 0 {
			out = strConcat(out, args[1])
		}
		out = strConcat(out, e)
	}
	return out
}
