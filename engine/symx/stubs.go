package symx

import (
	"fmt"
	"go/types"
)

// Contract stubs for libraries whose code is outside the encodable set.

// protoHandle is the single element of the opaque byte slice returned by
// the proto.Marshal stub: it carries a deep copy of the message structure.
// Contract assumed: protobuf round-trips messages (Unmarshal(Marshal(m)) is
// structurally m) and Marshal output of a non-nil message is non-empty.
type protoHandle struct {
	t   types.Type
	msg value // structure value (the pointee of the message pointer)
}

// deepCopy copies a value following pointers (cycle-safe).
func deepCopy(v value, memo map[*value]*value) value {
	switch x := v.(type) {
	case *value:
		if x == nil {
			return x
		}
		if c, ok := memo[x]; ok {
			return c
		}
		c := new(value)
		memo[x] = c
		*c = deepCopy(*x, memo)
		return c
	case structure:
		out := make(structure, len(x))
		for i, e := range x {
			out[i] = deepCopy(e, memo)
		}
		return out
	case array:
		out := make(array, len(x))
		for i, e := range x {
			out[i] = deepCopy(e, memo)
		}
		return out
	case []value:
		if x == nil {
			return x
		}
		out := make([]value, len(x), cap(x))
		for i, e := range x {
			out[i] = deepCopy(e, memo)
		}
		return out
	case iface:
		return iface{t: x.t, v: deepCopy(x.v, memo)}
	case tuple:
		out := make(tuple, len(x))
		for i, e := range x {
			out[i] = deepCopy(e, memo)
		}
		return out
	case *omap:
		if x == nil {
			return x
		}
		out := &omap{keyType: x.keyType, index: map[int][]*mentry{}}
		for _, e := range x.entries {
			if e.deleted {
				continue
			}
			ne := &mentry{key: deepCopy(e.key, memo), val: deepCopy(e.val, memo), symKey: e.symKey}
			out.entries = append(out.entries, ne)
			out.length++
			if ne.symKey {
				out.nsym++
			} else {
				h := keyHash(out.keyType, ne.key)
				out.index[h] = append(out.index[h], ne)
			}
		}
		return out
	}
	return v
}

func ext۰proto۰Marshal(fr *frame, args []value) value {
	m := args[0].(iface)
	if m.t == nil {
		return tuple{[]value(nil), iface{}}
	}
	p, ok := m.v.(*value)
	if !ok {
		fr.i.cx.unsupported("proto.Marshal of non-pointer message")
	}
	if p == nil {
		return tuple{[]value(nil), iface{}}
	}
	h := protoHandle{t: m.t, msg: deepCopy(*p, map[*value]*value{})}
	return tuple{[]value{h}, iface{}}
}

func ext۰proto۰Unmarshal(fr *frame, args []value) value {
	b := args[0].([]value)
	m := args[1].(iface)
	p, ok := m.v.(*value)
	if !ok || p == nil {
		fr.i.cx.unsupported("proto.Unmarshal into nil/non-pointer message")
	}
	elem := mustDeref(m.t)
	if len(b) == 0 {
		*p = zero(elem)
		return iface{}
	}
	h, ok := b[0].(protoHandle)
	if !ok || len(b) != 1 {
		// arbitrary bytes: the wire format itself is outside the encodable set
		fr.i.cx.unsupported("proto.Unmarshal of raw bytes (wire format is stubbed by contract)")
	}
	if !types.Identical(h.t, m.t) {
		return fr.i.newError(fmt.Sprintf("proto: cannot parse %s as %s", h.t, m.t))
	}
	*p = deepCopy(h.msg, map[*value]*value{})
	return iface{}
}

func ext۰proto۰Clone(fr *frame, args []value) value {
	m := args[0].(iface)
	if m.t == nil {
		return m
	}
	return iface{t: m.t, v: deepCopy(m.v, map[*value]*value{})}
}

// time.Now: a deterministic, strictly increasing clock (one tick per call).
// Contract assumed: wall-clock time is non-decreasing; no harness observes
// its value.
func ext۰time۰Now(fr *frame, args []value) value {
	cx := fr.i.cx
	cx.clock++
	return structure{uint64(0), int64(63_000_000_000) + cx.clock, (*value)(nil)}
}

func ext۰time۰Since(fr *frame, args []value) value {
	cx := fr.i.cx
	cx.clock++
	t := args[0].(structure)
	ext, _ := t[1].(int64)
	d := (int64(63_000_000_000) + cx.clock - ext) * 1_000_000_000
	if d < 0 {
		d = 0
	}
	return d
}

// extFreshID returns a fresh distinct identifier of 24 hex digits, like the
// hex form of a bson ObjectID.
func extFreshID(fr *frame, args []value) value {
	fr.i.cx.fresh++
	return fmt.Sprintf("f%023x", fr.i.cx.fresh)
}

func extCtxNoCancel(fr *frame, args []value) value {
	pkg := fr.i.prog.ImportedPackage(HarnessPkg)
	if pkg == nil || pkg.Func("Noop") == nil {
		fr.i.cx.unsupported("context cancellation without the harness package")
	}
	return tuple{args[0], pkg.Func("Noop")}
}

// zeroOf returns the zero result of the called function (used by prefix stubs).
func stubZero(fr *frame, args []value) value { return zeroResult(fr.fn) }

func init() {
	// logging and metrics are formatting / counters only: empty bodies.
	for _, pre := range []string{
		"(*go.uber.org/zap.SugaredLogger).",
		"(*go.uber.org/zap.Logger).",
		"go.uber.org/zap.",
		"(*github.com/yorkie-team/yorkie/server/profiling/prometheus.Metrics).",
		// shard selection of pkg/cache.LRU: every key lives in shard 0 (the
		// shards are independent LRUs; which one holds a key is unobservable)
		"hash/maphash.Comparable",
		"hash/maphash.MakeSeed",
	} {
		prefixExternals = append(prefixExternals, struct {
			prefix string
			fn     externalFn
		}{pre, stubZero})
	}
	for k, v := range map[string]externalFn{
		// fresh distinct identifiers (bson object ids)
		"github.com/yorkie-team/yorkie/server/backend/database/memory.newID": extFreshID,
		"github.com/yorkie-team/yorkie/api/types.NewID":                      extFreshID,
		"github.com/yorkie-team/yorkie/server/profiling/prometheus.NewMetrics": func(fr *frame, args []value) value {
			return tuple{(*value)(nil), iface{}} // all Metrics methods have empty bodies
		},
		"github.com/yorkie-team/yorkie/server/logging.DefaultLogger": func(fr *frame, args []value) value { return (*value)(nil) },
		"github.com/yorkie-team/yorkie/server/logging.New":           func(fr *frame, args []value) value { return (*value)(nil) },
		// background tasks (publication, snapshot storing) are outside
		"(*github.com/yorkie-team/yorkie/server/backend.Backend).Go": noop,
		// runtime-linked helper behind maps.Clone: shallow copy
		"maps.clone": func(fr *frame, args []value) value {
			itf := args[0].(iface)
			m, ok := itf.v.(*omap)
			if !ok || m == nil {
				return itf
			}
			out := &omap{keyType: m.keyType, index: map[int][]*mentry{}}
			for _, e := range m.entries {
				if !e.deleted {
					out.insert(fr.i.cx, e.key, e.val)
				}
			}
			return iface{t: itf.t, v: out}
		},
		// deadlines and cancellation never fire in a sequential run: the derived
		// context is the parent, the cancel function does nothing
		"context.WithTimeout":  extCtxNoCancel,
		"context.WithDeadline": extCtxNoCancel,
		"context.WithCancel":   extCtxNoCancel,
		// RPC headers (shard keys) are routing hints for the gateway: unobserved
		"(net/http.Header).Add": noop,
		"(net/http.Header).Set": noop,
		"(net/http.Header).Del": noop,
		"(net/http.Header).Get": func(fr *frame, args []value) value { return "" },
		// diagnostic rendering of tickets (error messages, test strings)
		"(*github.com/yorkie-team/yorkie/pkg/document/time.Ticket).ToTestString": func(fr *frame, args []value) value { return "<ticket>" },
		"time.Now":   ext۰time۰Now,
		"time.Since": ext۰time۰Since,
		"google.golang.org/protobuf/proto.Marshal":   ext۰proto۰Marshal,
		"google.golang.org/protobuf/proto.Unmarshal": ext۰proto۰Unmarshal,
		"google.golang.org/protobuf/proto.Clone":     ext۰proto۰Clone,
		// logging is formatting only: empty bodies
		"log.Printf":  noop,
		"log.Println": noop,
		"log.Print":   noop,
	} {
		externals[k] = v
	}
}
