package symx

import (
	"encoding/base64"
	"encoding/hex"
	"fmt"
	"math/big"
	"strconv"
	"strings"
)

// Structured symbolic strings: a sequence of literal and formatted-term parts.

type spKind uint8

const (
	spLit  spKind = iota
	spDecS        // decimal rendering of a signed bit-vector
	spDecU        // decimal rendering of an unsigned bit-vector
	spHex         // lowercase hex of w/8 bytes
	spB64         // base64.RawStdEncoding of w/8 bytes
)

type spart struct {
	kind spKind
	lit  string
	t    *Term
}

type symstr struct {
	parts []spart
}

func concreteStr(s string) *symstr {
	if s == "" {
		return &symstr{}
	}
	return &symstr{parts: []spart{{kind: spLit, lit: s}}}
}

func (p spart) fixedLen() (int, bool) {
	switch p.kind {
	case spLit:
		return len(p.lit), true
	case spHex:
		return p.t.w / 4, true
	case spB64:
		return base64.RawStdEncoding.EncodedLen(p.t.w / 8), true
	}
	return 0, false
}

func renderConst(kind spKind, t *Term) string {
	switch kind {
	case spDecS:
		return toSigned(t.c, t.w).String()
	case spDecU:
		return t.c.String()
	case spHex, spB64:
		b := make([]byte, t.w/8)
		t.c.FillBytes(b)
		if kind == spHex {
			return hex.EncodeToString(b)
		}
		return base64.RawStdEncoding.EncodeToString(b)
	}
	panic("renderConst")
}

// mkStr normalises parts; returns a Go string when fully concrete.
func mkStr(parts []spart) value {
	var out []spart
	for _, p := range parts {
		if p.kind != spLit && p.t.op == OpConst {
			p = spart{kind: spLit, lit: renderConst(p.kind, p.t)}
		}
		if p.kind == spLit {
			if p.lit == "" {
				continue
			}
			if n := len(out); n > 0 && out[n-1].kind == spLit {
				out[n-1].lit += p.lit
				continue
			}
		}
		out = append(out, p)
	}
	if len(out) == 0 {
		return ""
	}
	if len(out) == 1 && out[0].kind == spLit {
		return out[0].lit
	}
	return &symstr{parts: out}
}

func strParts(v value) []spart {
	switch v := v.(type) {
	case string:
		if v == "" {
			return nil
		}
		return []spart{{kind: spLit, lit: v}}
	case *symstr:
		return v.parts
	}
	panic(fmt.Sprintf("strParts: %T", v))
}

func strConcat(x, y value) value {
	return mkStr(append(append([]spart{}, strParts(x)...), strParts(y)...))
}

func isStr(v value) bool {
	switch v.(type) {
	case string, *symstr:
		return true
	}
	return false
}

// strLen returns the length if every part has fixed width.
func (cx *pathCtx) strLen(v value) int {
	n := 0
	for _, p := range strParts(v) {
		l, ok := p.fixedLen()
		if !ok {
			cx.unsupported("len of symbolic string with variable-width part")
		}
		n += l
	}
	return n
}

func (s *symstr) String() string {
	var sb strings.Builder
	for _, p := range s.parts {
		switch p.kind {
		case spLit:
			sb.WriteString(p.lit)
		case spDecS, spDecU:
			sb.WriteString("<dec " + p.t.String() + ">")
		case spHex:
			sb.WriteString("<hex " + p.t.String() + ">")
		case spB64:
			sb.WriteString("<b64 " + p.t.String() + ">")
		}
	}
	return sb.String()
}

// render evaluates the string under a valuation.
func (s *symstr) render(val map[string]*big.Int) string {
	var sb strings.Builder
	memo := map[*Term]*big.Int{}
	for _, p := range s.parts {
		if p.kind == spLit {
			sb.WriteString(p.lit)
			continue
		}
		c := &Term{op: OpConst, w: p.t.w, c: p.t.Eval(val, memo)}
		sb.WriteString(renderConst(p.kind, c))
	}
	return sb.String()
}

func isDecChar(c byte) bool { return c == '-' || (c >= '0' && c <= '9') }

// delimited reports whether the variable-width part at parts[0] is followed
// by something that cannot be confused with its own alphabet.
func delimited(parts []spart) bool {
	if len(parts) == 1 {
		return true
	}
	n := parts[1]
	return n.kind == spLit && !isDecChar(n.lit[0])
}

// symstrEq builds the term for string equality, or aborts the path as
// unsupported when the two skeletons cannot be aligned unambiguously.
func (cx *pathCtx) symstrEq(x, y *symstr) *Term {
	f := cx.f
	xs := append([]spart{}, x.parts...)
	ys := append([]spart{}, y.parts...)
	r := f.True
	for {
		if r.isFalse() {
			return r
		}
		if len(xs) == 0 || len(ys) == 0 {
			if len(xs) == 0 && len(ys) == 0 {
				return r
			}
			// one side is exhausted; the other must be empty. Non-literal parts
			// always render at least one character, literals are non-empty.
			return f.False
		}
		a, b := xs[0], ys[0]
		if a.kind != spLit && b.kind == spLit {
			xs, ys = ys, xs
			a, b = b, a
		}
		switch {
		case a.kind == spLit && b.kind == spLit:
			n := len(a.lit)
			if len(b.lit) < n {
				n = len(b.lit)
			}
			if a.lit[:n] != b.lit[:n] {
				return f.False
			}
			xs = dropLit(xs, n)
			ys = dropLit(ys, n)
		case a.kind == spLit && (b.kind == spDecS || b.kind == spDecU):
			if !delimited(ys) {
				cx.unsupported("string equality: undelimited decimal part")
			}
			k := 0
			for k < len(a.lit) && isDecChar(a.lit[k]) {
				k++
			}
			if k == len(a.lit) && len(xs) > 1 {
				cx.unsupported("string equality: literal digits followed by symbolic part")
			}
			if k == 0 {
				return f.False
			}
			d := a.lit[:k]
			var c *Term
			if b.kind == spDecS {
				v, err := strconv.ParseInt(d, 10, 64)
				if err != nil || strconv.FormatInt(v, 10) != d {
					return f.False
				}
				bv := big.NewInt(v)
				if toSigned(norm(bv, b.t.w), b.t.w).Cmp(bv) != 0 {
					return f.False // does not fit the width
				}
				c = f.Const(bv, b.t.w)
			} else {
				v, err := strconv.ParseUint(d, 10, 64)
				if err != nil || strconv.FormatUint(v, 10) != d {
					return f.False
				}
				bv := new(big.Int).SetUint64(v)
				if norm(bv, b.t.w).Cmp(bv) != 0 {
					return f.False
				}
				c = f.Const(bv, b.t.w)
			}
			r = f.And(r, f.Cmp(OpEq, b.t, c))
			xs = dropLit(xs, k)
			ys = ys[1:]
		case a.kind == spLit && (b.kind == spHex || b.kind == spB64):
			n, _ := b.fixedLen()
			if len(a.lit) < n {
				if len(xs) == 1 {
					return f.False
				}
				cx.unsupported("string equality: fixed-width part spans several parts")
			}
			var raw []byte
			var err error
			if b.kind == spHex {
				raw, err = hex.DecodeString(a.lit[:n])
				if err == nil && strings.ToLower(a.lit[:n]) != a.lit[:n] {
					return f.False
				}
			} else {
				raw, err = base64.RawStdEncoding.Strict().DecodeString(a.lit[:n])
			}
			if err != nil || len(raw)*8 != b.t.w {
				return f.False
			}
			r = f.And(r, f.Cmp(OpEq, b.t, f.Const(new(big.Int).SetBytes(raw), b.t.w)))
			xs = dropLit(xs, n)
			ys = ys[1:]
		case (a.kind == spDecS || a.kind == spDecU) && (b.kind == spDecS || b.kind == spDecU):
			if !delimited(xs) || !delimited(ys) {
				cx.unsupported("string equality: undelimited decimal parts")
			}
			if a.t.w != b.t.w || a.kind != b.kind {
				// compare as 128-bit integers
				ta, tb := cx.widenDec(a), cx.widenDec(b)
				r = f.And(r, f.Cmp(OpEq, ta, tb))
			} else {
				r = f.And(r, f.Cmp(OpEq, a.t, b.t))
			}
			xs, ys = xs[1:], ys[1:]
		case a.kind == b.kind && a.t.w == b.t.w: // hex/hex, b64/b64 same width
			r = f.And(r, f.Cmp(OpEq, a.t, b.t))
			xs, ys = xs[1:], ys[1:]
		default:
			cx.unsupported(fmt.Sprintf("string equality between part kinds %d and %d", a.kind, b.kind))
		}
	}
}

func (cx *pathCtx) widenDec(p spart) *Term {
	if p.kind == spDecS {
		return cx.f.SExt(p.t, 128)
	}
	return cx.f.ZExt(p.t, 128)
}

func dropLit(ps []spart, n int) []spart {
	if n == len(ps[0].lit) {
		return ps[1:]
	}
	out := append([]spart{{kind: spLit, lit: ps[0].lit[n:]}}, ps[1:]...)
	return out
}

// decPart renders an integer value in decimal as a string value.
func (cx *pathCtx) decString(v value) value {
	if s, ok := v.(sym); ok {
		_, signed := kindWidth(s.k)
		k := spDecU
		if signed {
			k = spDecS
		}
		return mkStr([]spart{{kind: k, t: s.t}})
	}
	if k, ok := intKind(v); ok {
		if _, signed := kindWidth(k); signed {
			return strconv.FormatInt(asInt64(v), 10)
		}
		return strconv.FormatUint(uint64(asInt64(v)), 10)
	}
	panic(fmt.Sprintf("decString: %T", v))
}

// bytesString renders a byte sequence as hex or base64.
func (cx *pathCtx) bytesString(kind spKind, bs []value) value {
	if len(bs) == 0 {
		return ""
	}
	anySym := false
	for _, b := range bs {
		if isSym(b) {
			anySym = true
		}
	}
	if !anySym {
		raw := bytesOf(bs)
		if kind == spHex {
			return hex.EncodeToString(raw)
		}
		return base64.RawStdEncoding.EncodeToString(raw)
	}
	if kind == spB64 && len(bs)%3 != 0 {
		cx.unsupported("base64 of symbolic bytes with padding group")
	}
	t, ok := cx.bytesTerm(bs)
	if !ok {
		cx.unsupported("bytesString: not bytes")
	}
	return mkStr([]spart{{kind: kind, t: t}})
}

func bytesOf(bs []value) []byte {
	out := make([]byte, len(bs))
	for i, b := range bs {
		out[i] = b.(uint8)
	}
	return out
}
