package symx

import (
	"go/types"

	"golang.org/x/tools/go/ssa"
)

// doSelect implements select in the single-goroutine model: the first ready
// case (in source order) is taken; a blocking select with no ready case
// aborts the path as unsupported.
func doSelect(fr *frame, instr *ssa.Select) value {
	chosen := -1
	var recv value
	recvOk := false
	for i, st := range instr.States {
		ch := fr.get(st.Chan).(chan value)
		if ch == nil {
			continue
		}
		if st.Dir == types.RecvOnly {
			select {
			case v, ok := <-ch:
				chosen, recv, recvOk = i, v, ok
			default:
			}
		} else {
			select {
			case ch <- fr.get(st.Send):
				chosen = i
			default:
			}
		}
		if chosen >= 0 {
			break
		}
	}
	if chosen < 0 && instr.Blocking {
		fr.i.cx.abort("unsupported", "blocking select with no ready case in "+fr.fn.String())
	}
	r := tuple{chosen, recvOk}
	for i, st := range instr.States {
		if st.Dir == types.RecvOnly {
			var v value
			if i == chosen && recvOk {
				v = recv
			} else {
				v = zero(st.Chan.Type().Underlying().(*types.Chan).Elem())
			}
			r = append(r, v)
		}
	}
	return r
}
