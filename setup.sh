#!/bin/sh
# Build the gosmt engine offline from /verif/engine (x/tools v0.50.0, go1.26.8).
set -e
cd "$(dirname "$0")/engine"
export GOFLAGS=-mod=mod GOPROXY=off GOSUMDB=off GOTOOLCHAIN=local
export PATH=/opt/veriftools/go1.26.8/bin:$PATH
mkdir -p ../bin
go build -o ../bin/gosmt .
echo "built $(cd .. && pwd)/bin/gosmt"
