//go:build verif

//verif:pkg server/backend

package backend

import (
	"github.com/yorkie-team/yorkie/api/types"
	pkgcache "github.com/yorkie-team/yorkie/pkg/cache"
	"github.com/yorkie-team/yorkie/pkg/document"
	"github.com/yorkie-team/yorkie/server/backend/background"
	"github.com/yorkie-team/yorkie/server/backend/cache"
	"github.com/yorkie-team/yorkie/server/backend/database"
	"github.com/yorkie-team/yorkie/server/backend/sync"
	"github.com/yorkie-team/yorkie/server/profiling/prometheus"
)

// VerifNewBackend builds a Backend around the given database for harnesses.
// Its background runner is closed, so fire-and-forget tasks (event
// publication, snapshot storing) are skipped: they are outside every claim.
func VerifNewBackend(conf *Config, db database.Database, metrics *prometheus.Metrics) *Backend {
	bg := background.New(metrics)
	bg.Close()
	// the real sharded LRU for built documents (the other caches are not used
	// by the code under check and would start timer goroutines)
	snapshots, err := pkgcache.NewLRU[types.DocRefKey, *document.InternalDocument](64, "snapshots")
	if err != nil {
		panic(err)
	}
	return &Backend{Config: conf, DB: db, Lockers: sync.New(), Metrics: metrics, background: bg,
		Cache: &cache.Manager{Snapshot: snapshots}}
}
