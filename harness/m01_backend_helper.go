//go:build verif

//verif:pkg server/backend

package backend

import (
	"github.com/yorkie-team/yorkie/server/backend/background"
	"github.com/yorkie-team/yorkie/server/backend/database"
	"github.com/yorkie-team/yorkie/server/backend/sync"
	"github.com/yorkie-team/yorkie/server/profiling/prometheus"
)

// VerifNewBackend builds a Backend around the given database for harnesses.
// Its background runner is closed, so fire-and-forget tasks (event
// publication, snapshot storing) are skipped: they are outside every claim.
func VerifNewBackend(conf *Config, db database.Database, metrics *prometheus.Metrics) *Backend {
	bg := background.New(metrics)
	bg.Close()
	return &Backend{Config: conf, DB: db, Lockers: sync.New(), Metrics: metrics, background: bg}
}
