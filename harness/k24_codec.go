//go:build verif

//verif:pkg api/converter

package converter

import (
	"fmt"

	api "github.com/yorkie-team/yorkie/api/yorkie/v1"
	"github.com/yorkie-team/yorkie/internal/zzvsym"
	"github.com/yorkie-team/yorkie/pkg/document/change"
	"github.com/yorkie-team/yorkie/pkg/document/crdt"
	"github.com/yorkie-team/yorkie/pkg/document/time"
)

func vTicket(n string) *time.Ticket {
	return time.NewTicket(zzvsym.Int64(n+"_l"), zzvsym.Uint32(n+"_d"), time.ActorID(zzvsym.Actor(n+"_a")))
}

// VerifK24IDsRoundTrip: tickets, version vectors, change ids and checkpoints
// survive the wire encoding with every field fully symbolic.
func VerifK24IDsRoundTrip() {
	tk := vTicket("t")
	back, err := fromTimeTicket(ToTimeTicket(tk))
	zzvsym.Assert(err == nil, "ticket-decode-no-error")
	zzvsym.Assert(back.Compare(tk) == 0, "ticket-round-trip")
	zzvsym.Assert(back.Key() == tk.Key(), "ticket-key-round-trip")
	nilBack, err := fromTimeTicket(ToTimeTicket(nil))
	zzvsym.Assert(err == nil && nilBack == nil, "nil-ticket-round-trip")

	names := []string{"act0", "act1", "act2"}
	uni := make([]time.ActorID, 3)
	for i := range uni {
		uni[i] = time.ActorID(zzvsym.Actor(names[i]))
	}
	zzvsym.DistinctActors(names...)
	vv := time.NewVersionVector()
	for i, a := range uni {
		if zzvsym.Bool(fmt.Sprintf("has%d", i)) {
			vv[a] = zzvsym.Int64(fmt.Sprintf("v%d", i))
		}
	}
	pbVV, err := ToVersionVector(vv)
	zzvsym.Assert(err == nil, "vv-encode-no-error")
	vv2, err := FromVersionVector(pbVV)
	zzvsym.Assert(err == nil, "vv-decode-no-error")
	zzvsym.Assert(len(vv2) == len(vv), "vv-round-trip-len")
	for _, a := range uni {
		x, xok := vv.Get(a)
		y, yok := vv2.Get(a)
		zzvsym.Assert(xok == yok && x == y, "vv-round-trip-entries")
	}
	id := change.NewID(zzvsym.Uint32("cs"), zzvsym.Int64("ss"), zzvsym.Int64("lam"), uni[0], vv)
	pbID, err := ToChangeID(id)
	zzvsym.Assert(err == nil, "changeid-encode-no-error")
	id2, err := fromChangeID(pbID)
	zzvsym.Assert(err == nil, "changeid-decode-no-error")
	zzvsym.Assert(id2.ClientSeq() == id.ClientSeq() && id2.ServerSeq() == id.ServerSeq() && id2.Lamport() == id.Lamport() && id2.ActorID() == id.ActorID(), "changeid-round-trip")
	zzvsym.Assert(len(id2.VersionVector()) == len(vv), "changeid-vv-round-trip")
	cp := change.NewCheckpoint(zzvsym.Int64("cp_s"), zzvsym.Uint32("cp_c"))
	zzvsym.Assert(fromCheckpoint(ToCheckpoint(cp)).Equal(cp), "checkpoint-round-trip")
	zzvsym.Reach("ids")
	zzvsym.Observe(back.Lamport(), len(vv2), id2.ClientSeq())
}

// VerifK24PrimitiveRoundTrip: primitives and counters of every integer /
// bool / bytes type keep type and value through Bytes()/ValueFromBytes and
// through the wire element encoding.
func VerifK24PrimitiveRoundTrip() {
	tk := vTicket("t")
	kind := zzvsym.IntRange("kind", 0, 6)
	var v interface{}
	switch kind {
	case 0:
		v = zzvsym.Bool("b")
	case 1:
		v = zzvsym.Int32("i32")
	case 2:
		v = zzvsym.Int64("i64")
	case 3:
		v = zzvsym.Int("int") // promoted to Integer or Long by value
	case 4:
		v = zzvsym.Bytes("bs", zzvsym.IntRange("nbytes", 0, 3))
	case 5:
		v = nil
	case 6:
		v = "str\"x"
	}
	p, err := crdt.NewPrimitive(v, tk)
	zzvsym.Assert(err == nil, "new-primitive-no-error")
	raw, err := crdt.ValueFromBytes(p.ValueType(), p.Bytes())
	zzvsym.Assert(err == nil, "value-from-bytes-no-error")
	q, err := crdt.NewPrimitive(raw, tk)
	zzvsym.Assert(err == nil, "rebuild-no-error")
	zzvsym.Assert(q.ValueType() == p.ValueType(), "primitive-type-round-trip")
	same := func(x, y *crdt.Primitive) bool {
		if kind != 4 {
			return x.Marshal() == y.Marshal()
		}
		// bytes: compared byte-wise (their JSON form is padded base64)
		xb, yb := x.Value().([]byte), y.Value().([]byte)
		if len(xb) != len(yb) {
			return false
		}
		for i := range xb {
			if xb[i] != yb[i] {
				return false
			}
		}
		return true
	}
	zzvsym.Assert(same(q, p), "primitive-value-round-trip")
	// through the wire element
	pb, err := toJSONElementSimple(p)
	zzvsym.Assert(err == nil, "element-encode-no-error")
	e, err := fromElement(pb)
	zzvsym.Assert(err == nil, "element-decode-no-error")
	if err == nil {
		ep, isPrim := e.(*crdt.Primitive)
		zzvsym.Assert(isPrim, "element-round-trip-kind")
		if isPrim {
			zzvsym.Assert(ep.ValueType() == p.ValueType(), "element-round-trip-type")
			zzvsym.Assert(same(ep, p), "element-round-trip-value")
		}
		zzvsym.Assert(e.CreatedAt().Compare(tk) == 0, "element-round-trip-ticket")
	}
	zzvsym.Reach("primitive")
	zzvsym.Observe(int(p.ValueType()))
}

func vMaybeTicket(n string) *api.TimeTicket {
	switch zzvsym.IntRange(n+"_nil", 0, 2) {
	case 0:
		return nil
	case 1: // wrong actor length
		return &api.TimeTicket{Lamport: zzvsym.Int64(n + "_l"), Delimiter: zzvsym.Uint32(n + "_d"), ActorId: zzvsym.Bytes(n+"_a", zzvsym.IntRange(n+"_alen", 0, 2))}
	}
	return &api.TimeTicket{Lamport: zzvsym.Int64(n + "_l"), Delimiter: zzvsym.Uint32(n + "_d"), ActorId: zzvsym.Bytes(n+"_a", 12)}
}

func vMaybeElement(n string) *api.JSONElementSimple {
	if zzvsym.IntRange(n+"_nil", 0, 1) == 0 {
		return nil
	}
	t := api.ValueType(zzvsym.Int32(n + "_type"))
	value := zzvsym.Bytes(n+"_v", zzvsym.IntRange(n+"_vlen", 0, 9))
	switch t {
	case api.ValueType_VALUE_TYPE_JSON_OBJECT, api.ValueType_VALUE_TYPE_JSON_ARRAY, api.ValueType_VALUE_TYPE_TREE:
		// their payload is a nested protobuf message: the wire format is
		// outside the encodable set (contract stub), only the nil payload is in
		value = nil
	case api.ValueType_VALUE_TYPE_DOUBLE, api.ValueType_VALUE_TYPE_DATE, api.ValueType_VALUE_TYPE_STRING:
		// floats are never symbolic; Date divides by constants (a known
		// bit-blasting stall); strings need concrete bytes: concrete
		// payload of the same (symbolically chosen) length
		value = make([]byte, len(value))
	}
	return &api.JSONElementSimple{CreatedAt: vMaybeTicket(n + "_c"), Type: t, Value: value}
}

// VerifK25DecoderRobust: structurally mutated change packs (nil members,
// wrong actor-id lengths, arbitrary enum values, short value payloads) are
// rejected with an error or decoded -- never with a panic.
func VerifK25DecoderRobust() {
	kind := zzvsym.IntRange("op", 0, 9)
	var op *api.Operation
	switch kind {
	case 0:
		op = nil
	case 1:
		op = &api.Operation{} // no body
	case 2:
		var set *api.Operation_Set
		if zzvsym.IntRange("inner", 0, 1) == 1 {
			set = &api.Operation_Set{ParentCreatedAt: vMaybeTicket("p"), Key: "k", Value: vMaybeElement("e"), ExecutedAt: vMaybeTicket("x")}
		}
		op = &api.Operation{Body: &api.Operation_Set_{Set: set}}
	case 3:
		var add *api.Operation_Add
		if zzvsym.IntRange("inner", 0, 1) == 1 {
			add = &api.Operation_Add{ParentCreatedAt: vMaybeTicket("p"), PrevCreatedAt: vMaybeTicket("q"), Value: vMaybeElement("e"), ExecutedAt: vMaybeTicket("x")}
		}
		op = &api.Operation{Body: &api.Operation_Add_{Add: add}}
	case 4:
		var mv *api.Operation_Move
		if zzvsym.IntRange("inner", 0, 1) == 1 {
			mv = &api.Operation_Move{ParentCreatedAt: vMaybeTicket("p"), PrevCreatedAt: vMaybeTicket("q"), CreatedAt: vMaybeTicket("c"), ExecutedAt: vMaybeTicket("x")}
		}
		op = &api.Operation{Body: &api.Operation_Move_{Move: mv}}
	case 5:
		var rm *api.Operation_Remove
		if zzvsym.IntRange("inner", 0, 1) == 1 {
			rm = &api.Operation_Remove{ParentCreatedAt: vMaybeTicket("p"), CreatedAt: vMaybeTicket("c"), ExecutedAt: vMaybeTicket("x")}
		}
		op = &api.Operation{Body: &api.Operation_Remove_{Remove: rm}}
	case 6:
		var inc *api.Operation_Increase
		if zzvsym.IntRange("inner", 0, 1) == 1 {
			inc = &api.Operation_Increase{ParentCreatedAt: vMaybeTicket("p"), Value: vMaybeElement("e"), ExecutedAt: vMaybeTicket("x")}
		}
		op = &api.Operation{Body: &api.Operation_Increase_{Increase: inc}}
	case 7:
		var as *api.Operation_ArraySet
		if zzvsym.IntRange("inner", 0, 1) == 1 {
			as = &api.Operation_ArraySet{ParentCreatedAt: vMaybeTicket("p"), CreatedAt: vMaybeTicket("c"), Value: vMaybeElement("e"), ExecutedAt: vMaybeTicket("x")}
		}
		op = &api.Operation{Body: &api.Operation_ArraySet_{ArraySet: as}}
	case 8:
		var ed *api.Operation_Edit
		if zzvsym.IntRange("inner", 0, 1) == 1 {
			ed = &api.Operation_Edit{ParentCreatedAt: vMaybeTicket("p"), ExecutedAt: vMaybeTicket("x"), Content: "c"}
			if zzvsym.IntRange("from", 0, 1) == 1 {
				ed.From = &api.TextNodePos{CreatedAt: vMaybeTicket("f"), Offset: zzvsym.Int32("foff"), RelativeOffset: zzvsym.Int32("frel")}
			}
			if zzvsym.IntRange("to", 0, 1) == 1 {
				ed.To = &api.TextNodePos{CreatedAt: vMaybeTicket("g"), Offset: zzvsym.Int32("goff"), RelativeOffset: zzvsym.Int32("grel")}
			}
		}
		op = &api.Operation{Body: &api.Operation_Edit_{Edit: ed}}
	case 9:
		var st *api.Operation_Style
		if zzvsym.IntRange("inner", 0, 1) == 1 {
			st = &api.Operation_Style{ParentCreatedAt: vMaybeTicket("p"), ExecutedAt: vMaybeTicket("x")}
			if zzvsym.IntRange("from", 0, 1) == 1 {
				st.From = &api.TextNodePos{CreatedAt: vMaybeTicket("f"), Offset: zzvsym.Int32("foff")}
			}
		}
		op = &api.Operation{Body: &api.Operation_Style_{Style: st}}
	}
	var id *api.ChangeID
	envelope := 0 // the envelope (id, checkpoint, nil change) varies independently of the operation
	if kind <= 1 {
		envelope = zzvsym.IntRange("envelope", 0, 5)
	}
	idKind, cpKind, nilChange := 1, 1, 0
	switch envelope {
	case 1:
		idKind = 0
	case 2:
		idKind = 2
	case 3:
		cpKind = 0
	case 4:
		nilChange = 1
	case 5:
		idKind = 3
	}
	switch idKind {
	case 1:
		id = &api.ChangeID{ClientSeq: zzvsym.Uint32("cs"), Lamport: zzvsym.Int64("lam"), ActorId: zzvsym.Bytes("ida", 12)}
	case 3:
		id = &api.ChangeID{ClientSeq: zzvsym.Uint32("cs"), Lamport: zzvsym.Int64("lam"), ActorId: zzvsym.Bytes("ida", zzvsym.IntRange("idalen", 0, 11))}
	case 2:
		id = &api.ChangeID{ActorId: zzvsym.Bytes("ida", 12), VersionVector: &api.VersionVector{Vector: map[string]int64{"not-base64!": 1}}}
	}
	var cp *api.Checkpoint
	if cpKind == 1 {
		cp = &api.Checkpoint{ServerSeq: zzvsym.Int64("cps"), ClientSeq: zzvsym.Uint32("cpc")}
	}
	pack := &api.ChangePack{DocumentKey: "doc", Checkpoint: cp, Changes: []*api.Change{{Id: id, Operations: []*api.Operation{op}}}}
	if nilChange == 1 {
		pack.Changes = append(pack.Changes, nil)
	}
	var err error
	panicked := zzvsym.Fails(func() {
		_, err = FromChangePack(pack)
	})
	zzvsym.Reach("decoded")
	zzvsym.Assert(!panicked, "change-pack-decoder-never-panics")
	zzvsym.Observe(err == nil)
}

// VerifK25ElementRobust: the element decoder on its own (snapshot members
// use it as well).
func VerifK25ElementRobust() {
	panicked := zzvsym.Fails(func() {
		_, _ = fromElement(vMaybeElement("solo"))
	})
	zzvsym.Reach("decoded")
	zzvsym.Assert(!panicked, "element-decoder-never-panics")
}

// VerifK25BytesRobust: arbitrary byte buffers presented as stored values
// are rejected with an error or decoded, never with a panic or hang.
func VerifK25BytesRobust() {
	n := zzvsym.IntRange("n", 0, 29)
	buf := zzvsym.Bytes("buf", n)
	which := zzvsym.IntRange("decoder", 0, 3)
	panicked := zzvsym.Fails(func() {
		switch which {
		case 0:
			// length header bounded: a hostile 2^63 entry count must not hang either
			_, _ = time.VersionVectorFromBytes(buf)
		case 1:
			_, _ = time.ActorIDFromBytes(buf)
		case 2:
			vt := crdt.ValueType(zzvsym.Int32("vt"))
			if vt == crdt.Double || vt == crdt.Date || vt == crdt.String {
				buf = make([]byte, len(buf)) // see vMaybeElement
			}
			_, _ = crdt.ValueFromBytes(vt, buf)
		case 3:
			_, _ = crdt.CounterValueFromBytes(crdt.CounterType(zzvsym.Int("ct")), buf)
		}
	})
	zzvsym.Reach("decoded")
	zzvsym.Assert(!panicked, "byte-decoder-never-panics")
}
