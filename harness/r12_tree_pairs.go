//go:build verif

//verif:pkg pkg/document

package document

import (
	"github.com/yorkie-team/yorkie/internal/zzvsym"
	"github.com/yorkie-team/yorkie/pkg/document/json"
	"github.com/yorkie-team/yorkie/pkg/document/presence"
)

// The operation x range matrices of upstream's test/complex tree concurrency
// tests, re-expressed as data (edit-edit, style-style, edit-style,
// split-split, split-edit).

type vRange struct{ from, mid, to int }

type vTreeOp struct {
	sel   int    // 0 front, 1 middle, 2 back, 3 all, 4 one-quarter, 5 three-quarter
	kind  int    // 0 edit, 1 merge, 2 split, 3 style-set, 4 style-remove
	cont  int    // 0 none, 1 text, 2 empty element, 3 styled paragraph
	level int    // split level
	key   string // style key
	val   string
}

type vMatrix struct {
	initial json.TreeNode
	ranges  [][2]vRange
	ops1    []vTreeOp
	ops2    []vTreeOp
}

func vP(text string, attrs map[string]string) json.TreeNode {
	return json.TreeNode{Type: "p", Attributes: attrs, Children: []json.TreeNode{{Type: "text", Value: text}}}
}

func vMatrices() []vMatrix {
	editOps := []vTreeOp{
		{sel: 0, cont: 1}, {sel: 1, cont: 1}, {sel: 2, cont: 1}, {sel: 3, cont: 1},
		{sel: 0, cont: 2}, {sel: 1, cont: 2}, {sel: 2, cont: 2}, {sel: 3, cont: 2},
		{sel: 3, cont: 0}, {sel: 3, kind: 1},
	}
	styleOps := []vTreeOp{
		{sel: 3, kind: 4, key: "bold"}, {sel: 3, kind: 3, key: "bold", val: "aa"}, {sel: 3, kind: 3, key: "bold", val: "bb"},
		{sel: 3, kind: 4, key: "italic"}, {sel: 3, kind: 3, key: "italic", val: "aa"}, {sel: 3, kind: 3, key: "italic", val: "bb"},
	}
	splitOps := []vTreeOp{
		{sel: 0, kind: 2, level: 1}, {sel: 4, kind: 2, level: 1}, {sel: 5, kind: 2, level: 1}, {sel: 2, kind: 2, level: 1},
		{sel: 0, kind: 2, level: 2}, {sel: 4, kind: 2, level: 2}, {sel: 5, kind: 2, level: 2}, {sel: 2, kind: 2, level: 2},
	}
	it := map[string]string{"italic": "true"}
	red := map[string]string{"color": "red"}
	return []vMatrix{
		{ // 0: edit-edit
			initial: json.TreeNode{Type: "root", Children: []json.TreeNode{vP("abc", nil), vP("def", nil), vP("ghi", nil)}},
			ranges: [][2]vRange{{{0, 5, 10}, {5, 10, 15}}, {{1, 2, 3}, {2, 3, 4}}, {{0, 5, 15}, {5, 5, 10}}, {{1, 2, 4}, {2, 2, 3}}, {{0, 5, 15}, {6, 7, 9}},
				{{0, 5, 5}, {5, 5, 10}}, {{1, 1, 2}, {2, 3, 4}}, {{0, 5, 10}, {0, 5, 10}}, {{1, 2, 4}, {1, 2, 4}}},
			ops1: editOps, ops2: editOps,
		},
		{ // 1: style-style
			initial: json.TreeNode{Type: "root", Children: []json.TreeNode{vP("a", nil), vP("b", nil), vP("c", nil)}},
			ranges:  [][2]vRange{{{3, -1, 6}, {3, -1, 6}}, {{0, -1, 9}, {3, -1, 6}}, {{0, -1, 6}, {3, -1, 9}}, {{0, -1, 3}, {3, -1, 6}}},
			ops1:    styleOps, ops2: styleOps,
		},
		{ // 2: edit-style
			initial: json.TreeNode{Type: "root", Children: []json.TreeNode{vP("a", red), vP("b", red), vP("c", red)}},
			ranges: [][2]vRange{{{3, 3, 6}, {3, -1, 6}}, {{0, 3, 9}, {0, 3, 9}}, {{0, 3, 9}, {3, -1, 6}}, {{3, 3, 6}, {0, -1, 9}}, {{0, 3, 6}, {3, -1, 9}},
				{{0, 3, 3}, {3, -1, 6}}, {{3, 3, 6}, {0, -1, 3}}},
			ops1: []vTreeOp{{sel: 0, cont: 3}, {sel: 1, cont: 3}, {sel: 2, cont: 3}, {sel: 3, cont: 0}, {sel: 3, cont: 3}, {sel: 3, kind: 1}},
			ops2: []vTreeOp{{sel: 3, kind: 4, key: "color"}, {sel: 3, kind: 3, key: "bold", val: "aa"}},
		},
		{ // 3: split-split
			initial: json.TreeNode{Type: "root", Children: []json.TreeNode{{Type: "p", Children: []json.TreeNode{{Type: "p", Children: []json.TreeNode{
				{Type: "p", Children: []json.TreeNode{vP("abcd", nil), vP("efgh", nil)}}, vP("ijkl", nil)}}}}}},
			ranges: [][2]vRange{{{3, 6, 9}, {3, 6, 9}}, {{3, 9, 15}, {3, 9, 15}}, {{3, 9, 15}, {9, 12, 15}}, {{2, 16, 22}, {9, 12, 15}}, {{3, 6, 9}, {9, 12, 15}}},
			ops1:   splitOps, ops2: splitOps,
		},
		{ // 4: split-edit
			initial: json.TreeNode{Type: "root", Children: []json.TreeNode{{Type: "p", Children: []json.TreeNode{
				{Type: "p", Attributes: it, Children: []json.TreeNode{vP("abcd", it), vP("efgh", it)}}, vP("ijkl", it)}}}},
			ranges: [][2]vRange{{{2, 5, 8}, {2, 5, 8}}, {{2, 5, 8}, {4, 5, 6}}, {{2, 5, 8}, {2, 8, 14}}, {{2, 5, 8}, {3, 4, 5}}, {{2, 5, 8}, {5, 6, 7}},
				{{2, 8, 14}, {2, 5, 8}}, {{2, 8, 14}, {8, 11, 14}}, {{2, 5, 8}, {8, 11, 14}}, {{8, 11, 14}, {2, 5, 8}}},
			ops1: []vTreeOp{{sel: 1, kind: 2, level: 1}, {sel: 1, kind: 2, level: 2}},
			ops2: []vTreeOp{{sel: 0, cont: 2}, {sel: 1, cont: 2}, {sel: 2, cont: 2}, {sel: 3, cont: 2}, {sel: 3, cont: 0}, {sel: 3, kind: 1},
				{sel: 3, kind: 3, key: "bold", val: "aa"}, {sel: 3, kind: 4, key: "italic"}},
		},
	}
}

func vSelRange(r vRange, sel int) (int, int) {
	switch sel {
	case 0:
		return r.from, r.from
	case 1:
		return r.mid, r.mid
	case 2:
		return r.to, r.to
	case 4:
		p := (r.from + r.mid + 1) / 2
		return p, p
	case 5:
		p := (r.mid + r.to) / 2
		return p, p
	}
	return r.from, r.to
}

// vXMLTokens splits the tree's XML (without the root tags) into one token per
// index position: an opening tag, a closing tag or a character.
func vXMLTokens(xml string) []string {
	var toks []string
	for i := 0; i < len(xml); {
		if xml[i] == '<' {
			j := i
			for xml[j] != '>' {
				j++
			}
			toks = append(toks, xml[i:j+1])
			i = j + 1
		} else {
			toks = append(toks, xml[i:i+1])
			i++
		}
	}
	if len(toks) >= 2 {
		toks = toks[1 : len(toks)-1]
	}
	return toks
}

// vMergeRange turns [from,to) into a boundary-crossing delete: from just
// before the first closing tag to just after the last opening tag inside it.
func vMergeRange(xml string, from, to int) (int, int, bool) {
	toks := vXMLTokens(xml)
	st, ed := -1, -1
	for k := from; k < to && k < len(toks); k++ {
		t := toks[k]
		if st == -1 && len(t) >= 2 && t[0] == '<' && t[1] == '/' {
			st = k
		}
		if len(t) >= 2 && t[0] == '<' && t[1] != '/' {
			ed = k + 1
		}
	}
	return st, ed, st != -1 && ed != -1 && st < ed
}

func vRunTreeOp(d *Document, op vTreeOp, r vRange, who int) {
	from, to := vSelRange(r, op.sel)
	var err error
	panicked := zzvsym.Fails(func() {
		err = d.Update(func(root *json.Object, p *presence.Presence) error {
			tr := root.GetTree("t")
			var content *json.TreeNode
			switch op.cont {
			case 1:
				content = &json.TreeNode{Type: "text", Value: []string{"A", "B"}[who]}
			case 2:
				content = &json.TreeNode{Type: []string{"b", "i"}[who], Children: []json.TreeNode{}}
			case 3:
				content = &json.TreeNode{Type: "p", Attributes: map[string]string{"italic": "true", "color": "blue"}, Children: []json.TreeNode{{Type: "text", Value: "d"}}}
			}
			switch op.kind {
			case 0:
				tr.Edit(from, to, content, 0)
			case 1:
				if f, t, ok := vMergeRange(tr.ToXML(), from, to); ok {
					tr.Edit(f, t, nil, 0)
				}
			case 2:
				tr.Edit(from, to, nil, op.level)
			case 3:
				tr.Style(from, to, map[string]string{op.key: op.val})
			case 4:
				tr.RemoveStyle(from, to, []string{op.key})
			}
			return nil
		})
	})
	zzvsym.Assert(!panicked, "tree-edit-no-panic")
	zzvsym.Assert(err == nil, "tree-edit-no-error")
}

// VerifR12TreePairs: for two clients starting from the same tree and each
// making one edit concurrently -- insert, delete, replace, merge, split at
// level 1 or 2, set or remove a style, over every relative placement of
// their ranges in upstream's matrices -- both end with the same tree after
// synchronising (either push order, every clock skew and actor order), a
// third replica fed by snapshot agrees, and clone == root everywhere.
func VerifR12TreePairs() {
	ms := vMatrices()
	mi := zzvsym.IntRange("matrix", 0, len(ms)-1)
	m := ms[mi]
	ri := zzvsym.IntRange("range", 0, len(m.ranges)-1)
	o1 := zzvsym.IntRange("op1", 0, len(m.ops1)-1)
	o2 := zzvsym.IntRange("op2", 0, len(m.ops2)-1)
	a, b := vReplica("actA"), vReplica("actB")
	s := vNewSrv()
	err := a.Update(func(root *json.Object, p *presence.Presence) error {
		root.SetNewTree("t", m.initial)
		return nil
	})
	zzvsym.Assert(err == nil, "base-update-no-error")
	s.sync(0, a)
	s.sync(1, b)
	s.sync(0, a)
	vSkew(a, "skewA")
	vSkew(b, "skewB")
	vRunTreeOp(a, m.ops1[o1], m.ranges[ri][0], 0)
	vRunTreeOp(b, m.ops2[o2], m.ranges[ri][1], 1)
	vCheckClone(a, "after-edit")
	vCheckClone(b, "after-edit")
	if zzvsym.IntRange("bPushesFirst", 0, 1) == 1 {
		s.sync(1, b)
		s.sync(0, a)
		s.sync(1, b)
	} else {
		s.sync(0, a)
		s.sync(1, b)
		s.sync(0, a)
	}
	s.sync(0, a)
	s.sync(1, b)
	zzvsym.Reach("quiescent")
	xa := a.Root().GetTree("t").ToXML()
	xb := b.Root().GetTree("t").ToXML()
	zzvsym.Assert(xa == xb, "trees-converge")
	vConverged("final", a, b)
	// a third, passive replica fed by snapshot
	c := vReplica("actS")
	s.syncSnapshot(2, c, false)
	zzvsym.Assert(c.Marshal() == a.Marshal(), "snapshot-fed-replica-agrees")
	vCheckClone(c, "snapshot-fed")
	zzvsym.Observe(xa)
}
