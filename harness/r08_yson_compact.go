//go:build verif

//verif:pkg pkg/document

package document

import (
	"github.com/yorkie-team/yorkie/internal/zzvsym"
	"github.com/yorkie-team/yorkie/pkg/document/change"
	"github.com/yorkie-team/yorkie/pkg/document/json"
	"github.com/yorkie-team/yorkie/pkg/document/presence"
	"github.com/yorkie-team/yorkie/pkg/document/yson"
)

// vCompact performs the rebuild-compare step of packs.Compact on the server
// document and returns the compacted change pack.
func vCompact(doc *InternalDocument) (*change.Pack, bool) {
	root, err := yson.FromCRDT(doc.RootObject())
	zzvsym.Assert(err == nil, "yson-export-no-error")
	if err != nil {
		return nil, false
	}
	newDoc := New("doc")
	err = newDoc.Update(func(r *json.Object, p *presence.Presence) error {
		r.SetYSON(root)
		return nil
	})
	zzvsym.Assert(err == nil, "yson-import-no-error")
	if err != nil {
		return nil, false
	}
	newRoot, err := yson.FromCRDT(newDoc.RootObject())
	zzvsym.Assert(err == nil, "yson-reexport-no-error")
	prev, err1 := root.(yson.Object).Marshal()
	next, err2 := newRoot.(yson.Object).Marshal()
	zzvsym.Assert(err1 == nil && err2 == nil, "yson-marshal-no-error")
	zzvsym.Assert(prev == next, "yson-round-trip-reproduces-content")
	zzvsym.Assert(newDoc.Marshal() == doc.Marshal(), "compacted-document-marshals-like-original")
	return newDoc.CreateChangePack(), true
}

// VerifR8YSONCompaction: every document reachable by the bounded histories
// survives the YSON round trip that compaction and revisions use, and a
// fresh attach after compaction receives exactly the pre-compaction content.
func VerifR8YSONCompaction() {
	a, b := vReplica("actA"), vReplica("actB")
	s := vNewSrv()
	typ := zzvsym.IntRange("type", -1, vNumTypes-1) // -1: a document holding every type
	vBase(a, typ)
	s.sync(0, a)
	s.sync(1, b)
	s.sync(0, a)
	vSkew(a, "skewA")
	vSkew(b, "skewB")
	if typ >= 0 {
		vEdit(a, "a0", typ, 10)
		if zzvsym.IntRange("bEdits", 0, 1) == 1 {
			vEdit(b, "b0", typ, 20)
		}
	} else {
		// nested containers and styled content in one document
		err := a.Update(func(root *json.Object, p *presence.Presence) error {
			root.GetObject("o").SetNewArray("nested").AddInteger(7).AddNewObject().SetString("s", "x\"y")
			root.GetText("txt").Style(1, 3, map[string]string{"b": "1"})
			root.GetTree("tree").Style(0, 1, map[string]string{"w": "2"})
			root.GetCounter("cnt").Increase(5)
			root.SetNewCounter("long", int64(1)<<40)
			root.SetBool("t", true).SetNull("n").SetDouble("d", 1.5).SetLong("l", int64(1)<<33)
			return nil
		})
		zzvsym.Assert(err == nil, "mixed-update-no-error")
	}
	s.sync(0, a)
	s.sync(1, b)
	s.sync(0, a)
	s.sync(1, b)
	vConverged("pre-compaction", a, b)
	gc := zzvsym.IntRange("serverGC", 0, 1) == 1
	doc := s.vServerDoc(nil, 0, len(s.log), gc)
	zzvsym.Assert(doc.Marshal() == a.Marshal(), "server-document-equals-clients")
	pack, ok := vCompact(doc)
	zzvsym.Reach("compacted")
	if ok {
		// a fresh attach after compaction: the log is the single compacted change
		c := vReplica("actC")
		cs := vWire(pack.Changes)
		err := c.ApplyChangePack(change.NewPack("doc", change.NewCheckpoint(int64(len(cs)), 0), cs, nil, nil))
		zzvsym.Assert(err == nil, "fresh-attach-after-compaction-no-error")
		zzvsym.Assert(c.Marshal() == a.Marshal(), "fresh-attach-after-compaction-equals-content-before")
		vCheckClone(c, "fresh-attach")
		// and it can keep editing
		if typ >= 0 {
			err, panicked := vApply(c, vFixedOp(typ, 30))
			zzvsym.Assert(err == nil && !panicked, "edit-after-compaction-accepted")
		}
	}
	zzvsym.Observe(a.Marshal())
}
