//go:build verif

//verif:pkg pkg/document

package document

import (
	"github.com/yorkie-team/yorkie/internal/zzvsym"
)

// VerifR1Converge2: two replicas (symbolic actor ids and clock skews), one
// (quick) or two (thorough) edits each of one content type, every placement
// of intermediate syncs; after a quiescent round both marshal identically,
// no sync fails, clone == root.
func VerifR1Converge2() {
	a, b := vReplica("actA"), vReplica("actB")
	zzvsym.DistinctActors("actA", "actB")
	s := vNewSrv()
	typ := zzvsym.IntRange("type", 0, vNumTypes-1)
	vBase(a, typ)
	s.sync(0, a)
	s.sync(1, b)
	s.sync(0, a)
	vConverged("base", a, b)
	vSkew(a, "skewA")
	vSkew(b, "skewB")
	nops := 1 + zzvsym.Tier()
	vSmallAlphabet = nops > 1 // two edits per replica: reduced index alphabet
	for round := 0; round < nops; round++ {
		vEdit(a, vName("a", round), typ, 10+round)
		if zzvsym.IntRange(vName("syncA", round), 0, 1) == 1 {
			s.sync(0, a)
		}
		if zzvsym.IntRange(vName("syncB", round), 0, 1) == 1 {
			s.sync(1, b)
		}
		vEdit(b, vName("b", round), typ, 20+round)
		if zzvsym.IntRange(vName("syncB2_", round), 0, 1) == 1 {
			s.sync(1, b)
		}
	}
	s.sync(0, a)
	s.sync(1, b)
	s.sync(0, a)
	s.sync(1, b)
	zzvsym.Reach("quiescent")
	vConverged("final", a, b)
	zzvsym.Observe(a.Marshal())
}
