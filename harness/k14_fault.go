//go:build verif

//verif:pkg server/packs

package packs

import (
	"context"
	"errors"
	"fmt"

	"github.com/yorkie-team/yorkie/api/types"
	"github.com/yorkie-team/yorkie/internal/zzvsym"
	"github.com/yorkie-team/yorkie/pkg/document"
	"github.com/yorkie-team/yorkie/pkg/document/change"
	"github.com/yorkie-team/yorkie/pkg/document/time"
	"github.com/yorkie-team/yorkie/server/backend/database"
	"github.com/yorkie-team/yorkie/server/backend/database/memory"
)

var vErrInjected = errors.New("injected storage fault")

// vFaultyDB fails exactly once, at a selected storage call of PushPull,
// either before the call takes effect or after it did.
type vFaultyDB struct {
	*memory.DB
	point int // 0 none; 1..5 call index
	after bool
	fired bool
}

func (f *vFaultyDB) hit(p int) (before, after bool) {
	if f.fired || f.point != p {
		return false, false
	}
	f.fired = true
	return !f.after, f.after
}

func (f *vFaultyDB) FindDocInfoByRefKey(ctx context.Context, k types.DocRefKey) (*database.DocInfo, error) {
	b, a := f.hit(1)
	if b {
		return nil, vErrInjected
	}
	r, err := f.DB.FindDocInfoByRefKey(ctx, k)
	if a {
		return nil, vErrInjected
	}
	return r, err
}

func (f *vFaultyDB) CreateChangeInfos(ctx context.Context, k types.DocRefKey, cp change.Checkpoint, cs []*database.ChangeInfo, removed bool) (*database.DocInfo, change.Checkpoint, error) {
	b, a := f.hit(2)
	if b {
		return nil, change.InitialCheckpoint, vErrInjected
	}
	d, c, err := f.DB.CreateChangeInfos(ctx, k, cp, cs, removed)
	if a {
		return nil, change.InitialCheckpoint, vErrInjected
	}
	return d, c, err
}

func (f *vFaultyDB) FindChangeInfosBetweenServerSeqs(ctx context.Context, k types.DocRefKey, from, to int64) ([]*database.ChangeInfo, error) {
	b, a := f.hit(3)
	if b {
		return nil, vErrInjected
	}
	r, err := f.DB.FindChangeInfosBetweenServerSeqs(ctx, k, from, to)
	if a {
		return nil, vErrInjected
	}
	return r, err
}

func (f *vFaultyDB) UpdateMinVersionVector(ctx context.Context, ci *database.ClientInfo, k types.DocRefKey, vv time.VersionVector) (time.VersionVector, error) {
	b, a := f.hit(4)
	if b {
		return nil, vErrInjected
	}
	r, err := f.DB.UpdateMinVersionVector(ctx, ci, k, vv)
	if a {
		return nil, vErrInjected
	}
	return r, err
}

func (f *vFaultyDB) UpdateClientInfoAfterPushPull(ctx context.Context, ci *database.ClientInfo, di *database.DocInfo) error {
	b, a := f.hit(5)
	if b {
		return vErrInjected
	}
	err := f.DB.UpdateClientInfoAfterPushPull(ctx, ci, di)
	if a {
		return vErrInjected
	}
	return err
}

// VerifK14PushPullFault: a single fault at each storage call of a PushPull
// (before or after it took effect) or a lost response, followed by a retry of
// the identical pack (optionally extended by one more change): every
// (actor, clientSeq) is stored at most once, nothing is lost, the retry
// succeeds and delivers every foreign change exactly once.
func VerifK14PushPullFault() {
	w := vNewWorld()
	ctx := context.Background()
	fdb := &vFaultyDB{DB: w.db}
	w.be.DB = fdb
	// pre-state as in K12, with a concrete small log: head in {0..2}
	k := zzvsym.IntRange("logTail", 0, 2)
	head := int64(k)
	selfMax := w.vSeedLog(head, k)
	zzvsym.Assert(w.db.VerifInsert(memory.VerifTblDocuments, &database.DocInfo{ID: vDocID, ProjectID: vProjID, Key: "k", ServerSeq: head}) == nil, "seed-doc-no-error")
	storedC := zzvsym.Uint32("storedC")
	zzvsym.Assume(storedC >= selfMax)
	zzvsym.Assume(storedC < 1<<30)
	stored := &database.ClientInfo{
		ID: vSelfID, ProjectID: vProjID, Key: "c", Status: database.ClientActivated,
		Documents: database.ClientDocInfoMap{vDocID: {Status: database.DocumentAttached, ServerSeq: 0, ClientSeq: storedC}},
	}
	zzvsym.Assert(w.db.VerifInsert(memory.VerifTblClients, stored) == nil, "seed-client-no-error")
	mkPack := func(n int) *change.Pack {
		var cs []*change.Change
		for i := 0; i < n; i++ {
			id := change.NewID(storedC+1+uint32(i), 0, int64(100+i), vActorOf(vSelfID), time.NewVersionVector())
			cs = append(cs, change.New(id, "", nil, nil))
		}
		return change.NewPack("k", change.NewCheckpoint(0, storedC+uint32(n)), cs, time.NewVersionVector(), nil)
	}
	n := zzvsym.IntRange("nchanges", 1, 2)
	fdb.point = zzvsym.IntRange("faultAt", 0, 6) // 6: response lost after a complete request
	fdb.after = zzvsym.IntRange("faultAfter", 0, 1) == 1
	load := func() *database.ClientInfo { return w.db.VerifClient(vSelfID).DeepCopy() } // every RPC loads the client row
	res1, err1 := PushPull(ctx, w.be, w.project, load(), w.docKey, mkPack(n), PushPullOptions{Mode: types.SyncModePushPull, Status: document.StatusAttached})
	delivered := err1 == nil && fdb.point != 6
	if fdb.point >= 1 && fdb.point <= 5 && fdb.fired {
		zzvsym.Assert(err1 != nil, "fault-surfaces-as-error")
	}
	zzvsym.Reach("first-attempt-done")
	// retry: the identical pack, optionally extended by one further change
	extra := zzvsym.IntRange("extraOnRetry", 0, 1)
	var res2 *ServerPack
	var err2 error
	if !delivered {
		res2, err2 = PushPull(ctx, w.be, w.project, load(), w.docKey, mkPack(n+extra), PushPullOptions{Mode: types.SyncModePushPull, Status: document.StatusAttached})
		zzvsym.Assert(err2 == nil, "retry-succeeds")
		zzvsym.Reach("retried")
	}
	// the log: every (actor, clientSeq) at most once, own changes exactly once in order
	rows := w.db.VerifChanges(vDocID)
	want := n
	if !delivered {
		want = n + extra
	}
	own := 0
	for i, r := range rows {
		zzvsym.Assert(r.ServerSeq == int64(i)+1, "log-gap-free")
		for _, q := range rows[:i] {
			dup := q.ActorID == r.ActorID && q.ClientSeq == r.ClientSeq
			zzvsym.Assert(!dup, "no-change-stored-twice")
		}
		if r.ActorID == vSelfID && r.ClientSeq > storedC {
			own++
			zzvsym.Assert(r.ClientSeq == storedC+uint32(own), "own-changes-stored-in-order")
		}
	}
	if err2 == nil {
		zzvsym.Assert(own == want, "no-change-lost")
	}
	// the response the client finally gets acknowledges everything it sent
	// and delivers every foreign change of the pre-existing tail exactly once
	final := res1
	if !delivered {
		final = res2
	}
	if final != nil {
		zzvsym.Assert(final.Checkpoint.ClientSeq == storedC+uint32(want), "final-response-acknowledges-all-sent-changes")
		foreign := 0
		for _, r := range rows[:k] {
			if r.ActorID != vSelfID {
				foreign++
			}
		}
		got := 0
		for _, c := range final.ChangeInfos {
			zzvsym.Assert(c.ActorID != vSelfID || c.ClientSeq > storedC+uint32(want), "no-echo-of-own-changes")
			if c.ActorID != vSelfID {
				got++
			}
		}
		zzvsym.Assert(got == foreign, "foreign-changes-delivered-exactly-once")
		zzvsym.Assert(final.Checkpoint.ServerSeq == int64(len(rows)), "final-checkpoint-is-head")
	}
	zzvsym.Observe(len(rows), fmt.Sprint(err1 == nil))
}
