//go:build verif

//verif:pkg server/packs

package packs

import (
	"fmt"

	"github.com/yorkie-team/yorkie/internal/zzvsym"
	"github.com/yorkie-team/yorkie/pkg/document/change"
	"github.com/yorkie-team/yorkie/pkg/document/time"
)

// VerifK11ClientSeqContinuity: a pushed pack is accepted iff the client
// sequence numbers above the stored checkpoint are exactly cp+1, cp+2, ...
// (already-pushed ones may be repeated and are skipped).
func VerifK11ClientSeqContinuity() {
	n := zzvsym.IntRange("n", 0, 3+zzvsym.Tier())
	cp := change.NewCheckpoint(zzvsym.Int64("cp_s"), zzvsym.Uint32("cp_c"))
	zzvsym.Assume(cp.ClientSeq < 1<<32-8) // outside: wrap of the uint32 client sequence
	var cs []*change.Change
	seqs := make([]uint32, n)
	for i := 0; i < n; i++ {
		seqs[i] = zzvsym.Uint32(fmt.Sprintf("seq%d", i))
		id := change.NewID(seqs[i], 0, 1, time.InitialActorID, time.NewVersionVector())
		cs = append(cs, change.New(id, "", nil, nil))
	}
	pack := change.NewPack("doc", cp, cs, nil, nil)
	err := validateClientSeqContinuity(cp, pack)
	zzvsym.Reach("validated")
	// reference: scan, skipping seq <= cp, expecting consecutive numbers
	want := true
	exp := cp.ClientSeq + 1
	for i := 0; i < n; i++ {
		if seqs[i] <= cp.ClientSeq {
			continue
		}
		if seqs[i] != exp {
			want = false
			break
		}
		exp++
	}
	zzvsym.Assert((err == nil) == want, "accepted-iff-consecutive")
	// consequence used by pushPack: on acceptance the new changes are cp+1..cp+k in order
	if err == nil {
		k := uint32(0)
		for i := 0; i < n; i++ {
			if seqs[i] > cp.ClientSeq {
				k++
				zzvsym.Assert(seqs[i] == cp.ClientSeq+k, "accepted-are-consecutive")
			}
		}
	}
	zzvsym.Observe(err == nil)
}
