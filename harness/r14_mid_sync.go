//go:build verif

//verif:pkg pkg/document

package document

import (
	"github.com/yorkie-team/yorkie/internal/zzvsym"
)

// VerifR14EditDuringSync: a local edit made while a sync of the same replica
// is in flight (after the request was sent, before the response is applied)
// is an ordinary concurrent edit: its change carries the clock it was made
// with (C06) and all replicas converge (C01).
func VerifR14EditDuringSync() {
	a, b := vReplica("actA"), vReplica("actB")
	zzvsym.DistinctActors("actA", "actB")
	s := vNewSrv()
	typ := zzvsym.IntRange("type", 0, vNumTypes-1)
	vBase(a, typ)
	s.sync(0, a)
	s.sync(1, b)
	s.sync(0, a)
	vSkew(a, "skewA")
	vSkew(b, "skewB")
	// B's edit reaches the server first
	vEdit(b, "b0", typ, 20)
	s.sync(1, b)
	if zzvsym.Tier() > 0 && zzvsym.IntRange("aEditsBefore", 0, 1) == 1 {
		vEdit(a, "a0", typ, 10)
	}
	// A's sync is in flight ...
	finish := s.syncBegin(0, a)
	// ... while A edits again: it has not seen b0
	vEdit(a, "a1", typ, 11)
	finish()
	zzvsym.Reach("response-applied-after-mid-edit")
	vCheckClone(a, "after-mid-sync-edit")
	s.sync(0, a)
	s.sync(1, b)
	s.sync(0, a)
	s.sync(1, b)
	zzvsym.Reach("quiescent")
	vConverged("final", a, b)
	zzvsym.Observe(a.Marshal())
}

// VerifR14bLocalGCOff: a replica that only switched its local garbage
// collection off (document.WithDisableGC) still takes part in the version
// vectors like any other: its changes dominate what it had applied (C06), it
// converges with an ordinary replica, and it does not collect.
func VerifR14bLocalGCOff() {
	a, b := vReplica("actA"), vReplica("actB", WithDisableGC())
	zzvsym.DistinctActors("actA", "actB")
	s := vNewSrv()
	typ := zzvsym.IntRange("type", 0, vNumTypes-1)
	vBase(a, typ)
	s.sync(0, a)
	s.sync(1, b)
	s.sync(0, a)
	vSkew(a, "skewA")
	vSkew(b, "skewB")
	vEdit(a, "a0", typ, 10)
	s.sync(0, a)
	s.sync(1, b)
	s.sync(1, b)
	vEdit(b, "b0", typ, 20)
	s.sync(1, b)
	s.sync(1, b)
	s.sync(0, a)
	s.sync(1, b)
	s.sync(0, a)
	zzvsym.Reach("quiescent")
	vConverged("final", a, b)
	zzvsym.Assert(b.VersionVector().VersionOf(a.ActorID()) > 0, "local-gc-off-replica-tracks-its-peers")
	zzvsym.Observe(a.Marshal())
}
