//go:build verif

//verif:pkg pkg/document

package document

import (
	"github.com/yorkie-team/yorkie/internal/zzvsym"
)

// VerifR6bSnapshotOnUsedReplica: a replica that already handed a copy to its
// user (it edited, or its Root() was read) and then falls behind is answered
// with a snapshot -- with or without a local change of its own in the same
// request. Afterwards the copy shown to users equals the document, the next
// local edit works on the new content, later remote changes apply, and all
// replicas converge.
func VerifR6bSnapshotOnUsedReplica() {
	a, b := vReplica("actA"), vReplica("actB")
	zzvsym.DistinctActors("actA", "actB")
	s := vNewSrv()
	typ := zzvsym.IntRange("type", 0, vNumTypes-1)
	vBase(a, typ)
	s.sync(0, a)
	s.sync(1, b)
	s.sync(0, a)
	vSmallAlphabet = true
	vCheckClone(b, "base") // B's user has read the document: a copy exists
	vSkew(a, "skewA")
	vSkew(b, "skewB")
	vEdit(a, "a0", typ, 10)
	s.sync(0, a)
	// B may have an unsent edit of its own when the snapshot arrives
	pending := zzvsym.IntRange("bPending", 0, 1) == 1
	if pending {
		err, panicked := vApply(b, vFixedOp(typ, 20))
		zzvsym.Assert(err == nil && !panicked, "pending-edit-accepted")
	}
	s.syncSnapshot(1, b, zzvsym.IntRange("gcBeforeSnapshot", 0, 1) == 1)
	zzvsym.Reach("snapshot-applied-on-used-replica")
	vCheckClone(b, "after-snapshot-on-used-replica")
	if !pending {
		zzvsym.Assert(b.Marshal() == a.Marshal(), "snapshot-fed-equals-author")
	}
	// the next local edit is chosen from, and applied to, the new content
	vEdit(b, "b1", typ, 21)
	// a later remote change applies on top
	err, panicked := vApply(a, vFixedOp(typ, 11))
	zzvsym.Assert(err == nil && !panicked, "later-remote-edit-accepted")
	s.sync(0, a)
	s.sync(1, b)
	s.sync(0, a)
	s.sync(1, b)
	zzvsym.Reach("quiescent")
	vConverged("final", a, b)
	zzvsym.Observe(a.Marshal())
}
