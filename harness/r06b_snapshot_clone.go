//go:build verif

//verif:pkg pkg/document

package document

import (
	"github.com/yorkie-team/yorkie/internal/zzvsym"
)

// VerifR6bSnapshotOnUsedReplica: a replica that already handed a copy to its
// user (it edited, or its Root() was read) and then falls behind is answered
// with a snapshot -- with or without a local change of its own in the same
// request. Afterwards the copy shown to users equals the document, the next
// local edit works on the new content, later remote changes apply, and all
// replicas converge.
func VerifR6bSnapshotOnUsedReplica() {
	a, b := vReplica("actA"), vReplica("actB")
	zzvsym.DistinctActors("actA", "actB")
	s := vNewSrv()
	typ := zzvsym.IntRange("type", 0, vNumTypes-1)
	vBase(a, typ)
	s.sync(0, a)
	s.sync(1, b)
	s.sync(0, a)
	vSmallAlphabet = true
	vCheckClone(b, "base") // B's user has read the document: a copy exists
	vSkew(a, "skewA")
	vSkew(b, "skewB")
	vEdit(a, "a0", typ, 10)
	s.sync(0, a)
	// B may have an unsent edit of its own when the snapshot arrives
	pending := zzvsym.IntRange("bPending", 0, 1) == 1
	if pending {
		err, panicked := vApply(b, vFixedOp(typ, 20))
		zzvsym.Assert(err == nil && !panicked, "pending-edit-accepted")
	}
	s.syncSnapshot(1, b, zzvsym.IntRange("gcBeforeSnapshot", 0, 1) == 1)
	zzvsym.Reach("snapshot-applied-on-used-replica")
	vCheckClone(b, "after-snapshot-on-used-replica")
	if !pending {
		zzvsym.Assert(b.Marshal() == a.Marshal(), "snapshot-fed-equals-author")
	}
	// the next local edit is chosen from, and applied to, the new content
	vEdit(b, "b1", typ, 21)
	// a later remote change applies on top
	err, panicked := vApply(a, vFixedOp(typ, 11))
	zzvsym.Assert(err == nil && !panicked, "later-remote-edit-accepted")
	s.sync(0, a)
	s.sync(1, b)
	s.sync(0, a)
	s.sync(1, b)
	zzvsym.Reach("quiescent")
	vConverged("final", a, b)
	zzvsym.Observe(a.Marshal())
}

// VerifR6dUndoThenCollect: undo and redo act on the user-visible copy exactly
// as on the document: after the tombstones they touched are collected (the
// copy is collected alongside the document) the copy still equals the
// document, and the next edit works on it. The replica is the only attached
// client, so its own syncs let it collect (how undo / redo changes fare on
// peers is C15).
func VerifR6dUndoThenCollect() {
	a := vReplica("actA")
	s := vNewSrv()
	typ := zzvsym.IntRange("type", 0, vNumTypes-1)
	vBase(a, typ)
	zzvsym.Assert(a.ClearHistory() == nil, "clear-history-no-error") // undo stops at the base content
	s.sync(0, a)
	vSmallAlphabet = true
	vSkew(a, "skewA")
	n := 1 + zzvsym.Tier()
	for i := 0; i < n; i++ {
		vEdit(a, vName("a", i), typ, 10+i)
	}
	if zzvsym.IntRange("syncBeforeUndo", 0, 1) == 1 {
		s.sync(0, a)
		s.sync(0, a)
	}
	for i := 0; i < n; i++ {
		zzvsym.Assert(a.Undo() == nil, "undo-no-error")
		vCheckClone(a, "after-undo")
	}
	if zzvsym.IntRange("redo", 0, 1) == 1 {
		zzvsym.Assert(a.Redo() == nil, "redo-no-error")
		vCheckClone(a, "after-redo")
	}
	// the replica's own syncs let it collect what undo / redo left behind
	s.sync(0, a)
	s.sync(0, a)
	zzvsym.Reach("collected")
	vCheckClone(a, "after-collection")
	// the next edit is chosen from, and applied to, the copy
	vEdit(a, "z", typ, 21)
	s.sync(0, a)
	s.sync(0, a)
	vCheckClone(a, "final")
	zzvsym.Observe(a.Marshal())
}
