//go:build verif

//verif:pkg pkg/document

package document

import (
	"errors"
	"github.com/yorkie-team/yorkie/internal/zzvsym"
	"github.com/yorkie-team/yorkie/pkg/document/json"
	"github.com/yorkie-team/yorkie/pkg/document/presence"
	"github.com/yorkie-team/yorkie/pkg/document/time"
)

var errRejected = errors.New("rejected")

func vAttach(d *Document, color string) {
	err := d.Update(func(root *json.Object, p *presence.Presence) error {
		p.Initialize(presence.Data{"color": color})
		return nil
	})
	zzvsym.Assert(err == nil, "attach-update-no-error")
}

func vDetach(s *vSrv, idx int, d *Document) {
	err := d.Update(func(root *json.Object, p *presence.Presence) error {
		p.Clear()
		return nil
	})
	zzvsym.Assert(err == nil, "detach-update-no-error")
	s.sync(idx, d)
	s.detach(idx)
	d.SetStatus(StatusDetached)
}

// VerifR9PresenceConverge: after synchronisation every replica sees the
// same presence for every attached participant, a detached participant
// disappears for everyone; with presence disabled nothing is ever stored,
// returned or included in snapshots.
func VerifR9PresenceConverge() {
	disabled := zzvsym.IntRange("disablePresence", 0, 1) == 1
	var opts []Option
	if disabled {
		opts = append(opts, WithDisablePresence())
	}
	a, b := vReplica("actA", opts...), vReplica("actB", opts...)
	s := vNewSrv()
	vAttach(a, "red")
	s.sync(0, a)
	vAttach(b, "blue")
	s.sync(1, b)
	s.sync(0, a)
	vSkew(a, "skewA")
	vSkew(b, "skewB")
	bDetached := false
	steps := 3 + zzvsym.Tier()
	for i := 0; i < steps; i++ {
		switch zzvsym.IntRange(vName("step", i), 0, 6) {
		case 5: // the application reads the presences (hands out / shares the internal maps)
			_ = a.AllPresences()
			_ = b.AllPresences()
			_ = a.Root()
			_ = b.Root()
		case 6: // a rejected update on A drops and later re-creates its working copy
			_ = a.Update(func(root *json.Object, p *presence.Presence) error { return errRejected })
		case 0: // A changes its presence
			a.Update(func(root *json.Object, p *presence.Presence) error {
				p.Set("color", vName("a", i))
				return nil
			})
		case 1: // B changes its presence together with a document edit
			if !bDetached {
				b.Update(func(root *json.Object, p *presence.Presence) error {
					root.SetString("k", vName("v", i))
					p.Set("cursor", vName("b", i))
					return nil
				})
			}
		case 2: // A deletes a presence key
			a.Update(func(root *json.Object, p *presence.Presence) error {
				p.Delete("color")
				return nil
			})
		case 3: // B detaches
			if !bDetached {
				vDetach(s, 1, b)
				bDetached = true
			}
		case 4: // everybody syncs
			s.sync(0, a)
			if !bDetached {
				s.sync(1, b)
			}
		}
	}
	// a late replica attaches and is answered with a snapshot
	c := vReplica("actS", opts...)
	vAttach(c, "green")
	s.syncSnapshot(2, c, zzvsym.IntRange("gcBeforeSnapshot", 0, 1) == 1)
	for r := 0; r < 2; r++ {
		s.sync(0, a)
		if !bDetached {
			s.sync(1, b)
		}
		s.sync(2, c)
	}
	zzvsym.Reach("quiescent")
	live := []*Document{a, c}
	if !bDetached {
		live = append(live, b)
	}
	for _, id := range []time.ActorID{a.ActorID(), b.ActorID(), c.ActorID()} {
		want := vPresenceOf(a, id)
		for _, d := range live[1:] {
			zzvsym.Assert(vPresenceOf(d, id) == want, "presence-identical-on-synced-replicas")
		}
	}
	if disabled {
		for _, d := range live {
			zzvsym.Assert(len(d.AllPresences()) == 0, "presenceless-document-has-no-presence")
		}
		for _, ch := range s.log {
			zzvsym.Assert(ch.PresenceChange() == nil, "presenceless-log-has-no-presence")
			zzvsym.Assert(ch.HasOperations(), "presenceless-log-has-no-presence-only-change")
		}
	} else {
		zzvsym.Assert(vPresenceOf(a, a.ActorID()) != "<none>", "attached-actor-present")
		zzvsym.Assert(vPresenceOf(a, c.ActorID()) == "{color=green}", "late-attacher-present")
		if bDetached {
			zzvsym.Assert(vPresenceOf(a, b.ActorID()) == "<none>", "detached-actor-disappears")
			zzvsym.Assert(vPresenceOf(c, b.ActorID()) == "<none>", "detached-actor-disappears-on-snapshot-fed")
		} else {
			zzvsym.Assert(vPresenceOf(a, b.ActorID()) != "<none>", "attached-peer-present")
		}
	}
	vConverged("final", live...)
	zzvsym.Observe(vPresenceOf(a, a.ActorID()), vPresenceOf(a, b.ActorID()), a.Marshal())
}
