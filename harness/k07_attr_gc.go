//go:build verif

//verif:pkg pkg/document/crdt

package crdt

import (
	"fmt"

	"github.com/yorkie-team/yorkie/internal/zzvsym"
	"github.com/yorkie-team/yorkie/pkg/document/time"
)

// VerifK7AttrGC: attribute sets and removals (Tree/Text Style, RemoveStyle)
// arriving in any order -- tickets are symbolic, so every relation between
// arrival order and ticket order is covered -- register their tombstones
// with the real Root registry exactly as Tree.Style / RemoveStyle do; a
// garbage collection under an arbitrary version vector then never changes
// what the attribute shows (C03), and before it the attribute shows the
// last writer's value (C01).
func VerifK7AttrGC() {
	n := 3 + zzvsym.Tier()
	node := NewTreeNode(NewTreeNodeID(time.InitialTicket, 0), "p", nil)
	root := NewRoot(NewObject(NewElementRHT(), time.InitialTicket))
	ts := make([]*time.Ticket, n)
	kinds := make([]int, n)
	for i := range ts {
		ts[i] = vTk(fmt.Sprintf("op%d", i))
		kinds[i] = zzvsym.IntRange(fmt.Sprintf("kind%d", i), 0, 1) // 0 set, 1 remove
	}
	vDistinctTickets(ts...)
	vector := time.NewVersionVector()
	for i := range ts {
		if kinds[i] == 0 {
			if dead := node.SetAttr("k", fmt.Sprintf("v%d", i), ts[i]); dead != nil {
				root.RegisterGCPair(GCPair{Parent: node, Child: dead})
			}
		} else {
			for _, dead := range node.RemoveAttr("k", ts[i]) {
				root.RegisterGCPair(GCPair{Parent: node, Child: dead})
			}
		}
		// an arbitrary acknowledgement level for this author
		l := zzvsym.Int64(fmt.Sprintf("ack%d", i))
		zzvsym.Assume(l >= 0)
		vector.Set(ts[i].ActorID(), l)
	}
	// last writer wins
	w := 0
	for i := 1; i < n; i++ {
		if ts[i].After(ts[w]) {
			w = i
		}
	}
	wantHas, wantGet := kinds[w] == 0, ""
	if wantHas {
		wantGet = fmt.Sprintf("v%d", w)
	}
	zzvsym.Assert(node.Attrs.Has("k") == wantHas, "attribute-shows-last-writer-presence")
	zzvsym.Assert(node.Attrs.Get("k") == wantGet, "attribute-shows-last-writer-value")
	_, err := root.GarbageCollect(vector)
	zzvsym.Reach("collected")
	zzvsym.Assert(err == nil, "attribute-gc-no-error")
	zzvsym.Assert(node.Attrs.Has("k") == wantHas, "attribute-gc-keeps-presence")
	zzvsym.Assert(node.Attrs.Get("k") == wantGet, "attribute-gc-keeps-value")
	zzvsym.Assert(node.Attrs.Len() == map[bool]int{true: 1, false: 0}[wantHas], "attribute-gc-keeps-len")
	// a full collection afterwards is harmless too
	for i := range ts {
		vector.Set(ts[i].ActorID(), time.MaxLamport)
	}
	_, err = root.GarbageCollect(vector)
	zzvsym.Assert(err == nil, "attribute-full-gc-no-error")
	zzvsym.Assert(node.Attrs.Has("k") == wantHas && node.Attrs.Get("k") == wantGet, "attribute-full-gc-keeps-value")
	zzvsym.Observe(node.Attrs.Marshal())
}
