//go:build verif

//verif:pkg server/rpc

package rpc

import (
	"context"

	"github.com/yorkie-team/yorkie/api/types"
	"github.com/yorkie-team/yorkie/cluster"
	"github.com/yorkie-team/yorkie/internal/zzvsym"
	"github.com/yorkie-team/yorkie/pkg/document"
	"github.com/yorkie-team/yorkie/pkg/key"
	"github.com/yorkie-team/yorkie/server/backend/database"
	"github.com/yorkie-team/yorkie/server/clients"
	"github.com/yorkie-team/yorkie/server/documents"
)

// VerifS2RetryAndLifecycle: through the real server code,
//   - a request whose response is lost and which is sent again, possibly
//     extended by a new change, stores every change exactly once (C05);
//   - a client that detaches itself, or is deactivated (clients.Deactivate:
//     the cluster DetachDocument handler for every attached document, reached
//     through a loopback cluster client, then DeactivateClient), leaves no version
//     vector row, is no longer counted as attached, and no longer holds back
//     the other client's garbage collection (C11).
func VerifS2RetryAndLifecycle() {
	ctx := context.Background()
	be, db := documents.VerifNewServer()
	project := &types.Project{ID: "proj00000000000000000001", SnapshotThreshold: 1 << 40, SnapshotInterval: 1 << 40}
	docKey := key.Key("s2-doc")
	a := documents.VerifAttachPeer(ctx, be, project, "ca", docKey)
	b := documents.VerifAttachPeer(ctx, be, project, "cb", docKey)
	typ := zzvsym.IntRange("type", 0, document.VerifNumTypes-1)
	document.VerifSmallAlphabet(true)
	document.VerifBase(a.Doc(), typ)
	a.Sync(ctx)
	b.Sync(ctx)
	a.Sync(ctx)

	// --- C05: lost response, resend
	document.VerifEdit(a.Doc(), "a0", typ, 10)
	lost := zzvsym.IntRange("responseLost", 0, 1) == 1
	if lost {
		a.SyncLosingResponse(ctx)
		if zzvsym.IntRange("editBeforeResend", 0, 1) == 1 {
			document.VerifEdit(a.Doc(), "a1", typ, 11)
		}
	}
	a.Sync(ctx)
	b.Sync(ctx)
	a.Sync(ctx)
	b.Sync(ctx)
	zzvsym.Reach("resent")
	zzvsym.Assert(a.Doc().Marshal() == b.Doc().Marshal(), "replicas-converge-after-resend")
	documents.VerifCheckLog(ctx, be, a.RefKey()) // client sequence numbers grow per author: no change stored twice
	document.VerifCheckClone(a.Doc(), "after-resend")

	// --- C11: B leaves; its client may hold a second document, attached or removed by itself
	docID := a.RefKey().DocID
	how := zzvsym.IntRange("bLeavesBy", 0, 1)
	second := 0
	if how == 1 {
		second = zzvsym.IntRange("bSecondDoc", 0, 3) // none, attached, removed by B, removed by A while B holds it
	}
	var b2 *documents.VerifPeer
	if second > 0 {
		b2 = documents.VerifAttachAnother(ctx, b, key.Key("s2-doc2"))
		if second == 2 {
			b2.Remove(ctx)
		}
		if second == 3 {
			a2 := documents.VerifAttachAnother(ctx, a, key.Key("s2-doc2"))
			a2.Remove(ctx)
		}
	}
	if how == 0 {
		b.Detach(ctx)
	} else {
		// clients.Deactivate itself: it asks the document's node (here: this
		// node, through a loopback cluster client) to detach every attached
		// document and then deactivates the client
		be.Config.GatewayAddr = "self"
		be.ClusterClientPool = cluster.VerifLoopbackPool("self", newClusterServer(be))
		_, err := clients.Deactivate(ctx, be, project, b.Info().RefKey())
		zzvsym.Assert(err == nil, "deactivate-no-error")
	}
	zzvsym.Reach("b-left")
	bInfo := db.VerifClient(b.Info().ID.String())
	zzvsym.Assert(bInfo != nil && bInfo.Documents[docID] != nil && bInfo.Documents[docID].Status == database.DocumentDetached, "left-client-document-is-detached")
	if how == 1 {
		zzvsym.Assert(bInfo.Status == database.ClientDeactivated, "deactivated-client-is-deactivated")
		if second > 0 {
			st := bInfo.Documents[b2.RefKey().DocID]
			zzvsym.Assert(st != nil && st.Status == map[int]string{1: database.DocumentDetached, 2: database.DocumentRemoved, 3: database.DocumentDetached}[second], "second-document-detached-or-still-removed")
			zzvsym.Assert(len(db.VerifVersionVectors(string(b2.RefKey().DocID))) == 0, "second-document-has-no-version-vector-rows")
		}
	}
	for _, row := range db.VerifVersionVectors(docID.String()) {
		zzvsym.Assert(row.ClientID != b.Info().ID, "left-client-has-no-version-vector-row")
	}
	attached, err := documents.IsDocumentAttachedOrAttaching(ctx, be, a.RefKey(), "")
	zzvsym.Assert(err == nil && attached, "document-still-attached-by-the-other-client")
	// A alone: what it deletes is collected after its next syncs
	document.VerifEdit(a.Doc(), "a2", typ, 12)
	a.Sync(ctx)
	a.Sync(ctx)
	zzvsym.Assert(!a.Failed(), "no-sync-failed")
	zzvsym.Assert(a.Doc().GarbageLen() == 0, "left-client-no-longer-holds-back-collection")
	a.Detach(ctx)
	attached, err = documents.IsDocumentAttachedOrAttaching(ctx, be, a.RefKey(), "")
	zzvsym.Assert(err == nil && !attached, "document-attached-by-nobody")
	zzvsym.Assert(len(db.VerifVersionVectors(docID.String())) == 0, "no-version-vector-rows-left")
	zzvsym.Observe(a.Doc().Marshal())
}
