//go:build verif

//verif:pkg server/documents

package documents

import (
	"context"

	"github.com/yorkie-team/yorkie/api/types"
	"github.com/yorkie-team/yorkie/internal/zzvsym"
	"github.com/yorkie-team/yorkie/pkg/document"
	"github.com/yorkie-team/yorkie/pkg/document/time"
	"github.com/yorkie-team/yorkie/pkg/key"
	"github.com/yorkie-team/yorkie/server/backend"
	"github.com/yorkie-team/yorkie/server/backend/database/memory"
	"github.com/yorkie-team/yorkie/server/logging"
	"github.com/yorkie-team/yorkie/server/profiling/prometheus"
)

func vNewServer() (*backend.Backend, *memory.DB) {
	db, err := memory.New()
	zzvsym.Assert(err == nil, "memdb-new-no-error")
	logging.DefaultLogger()
	metrics, err := prometheus.NewMetrics()
	zzvsym.Assert(err == nil, "metrics-new-no-error")
	return backend.VerifNewBackend(&backend.Config{Hostname: "h"}, db, metrics), db
}

// vCheckLog checks the C04/C06 clauses on the stored change log: sequence
// numbers are exactly 1..N, per author the client sequence numbers and
// lamports grow, (lamport, actor) is unique and every change names its author
// at its own lamport.
func vCheckLog(ctx context.Context, be *backend.Backend, refKey types.DocRefKey) {
	docInfo, err := FindDocInfoByRefKey(ctx, be, refKey)
	zzvsym.Assert(err == nil, "find-doc-no-error")
	infos, err := be.DB.FindChangeInfosBetweenServerSeqs(ctx, refKey, 1, docInfo.ServerSeq)
	zzvsym.Assert(err == nil, "find-changes-no-error")
	zzvsym.Assert(int64(len(infos)) == docInfo.ServerSeq, "log-has-one-row-per-sequence-number")
	lastCS := map[types.ID]uint32{}
	lastL := map[types.ID]int64{}
	for i, ci := range infos {
		zzvsym.Assert(ci.ServerSeq == int64(i+1), "log-sequence-is-gap-free")
		zzvsym.Assert(ci.ClientSeq > lastCS[ci.ActorID], "log-client-seqs-grow-per-author")
		lastCS[ci.ActorID] = ci.ClientSeq
		if len(ci.VersionVector) == 0 {
			continue // presence-only change: no clocks
		}
		zzvsym.Assert(ci.Lamport > lastL[ci.ActorID], "log-lamports-grow-per-author")
		lastL[ci.ActorID] = ci.Lamport
		actor, err := ci.ActorID.ToActorID()
		zzvsym.Assert(err == nil, "log-actor-id-parses")
		zzvsym.Assert(ci.VersionVector.VersionOf(actor) == ci.Lamport, "log-own-vector-entry-is-lamport")
	}
}

// vCheckMinVV: the minimum vector stored for the document never exceeds what
// an attached peer has acknowledged (its replica's own vector).
func vCheckMinVV(ctx context.Context, be *backend.Backend, refKey types.DocRefKey, peers ...*vPeer) {
	minVV, err := be.DB.GetMinVersionVector(ctx, refKey, peers[0].doc.VersionVector())
	zzvsym.Assert(err == nil, "min-vector-no-error")
	for _, p := range peers {
		vv := p.doc.VersionVector()
		for actor, l := range minVV {
			zzvsym.Assert(l <= vv.VersionOf(actor), "min-vector-never-overstates-an-attached-client")
		}
	}
	_ = time.InitialLamport
}

// VerifS1ServerConverge: two real replicas edit concurrently and synchronise
// through the real server code (clients / documents / packs on the memdb
// model): they converge, no request fails, the stored log satisfies the
// C04/C06 clauses -- for both activation orders (actor-id orders), symbolic
// clock skews, every edit pair of one content type and every placement of
// intermediate syncs, with change-log and server-built-snapshot responses.
func VerifS1ServerConverge() {
	ctx := context.Background()
	be, _ := vNewServer()
	project := &types.Project{
		ID: "proj00000000000000000001",
		// 2: peers that are two or more changes behind are answered by a server-built snapshot
		SnapshotThreshold: []int64{1 << 40, 2}[zzvsym.IntRange("snapshots", 0, 1)],
		SnapshotInterval:  1 << 40,
	}
	docKey := key.Key("s1-doc")
	var a, b *vPeer
	if zzvsym.IntRange("bActivatesFirst", 0, 1) == 1 {
		b = vAttachPeer(ctx, be, project, "cb", docKey)
		a = vAttachPeer(ctx, be, project, "ca", docKey)
	} else {
		a = vAttachPeer(ctx, be, project, "ca", docKey)
		b = vAttachPeer(ctx, be, project, "cb", docKey)
	}
	typ := zzvsym.IntRange("type", 0, document.VerifNumTypes-1)
	document.VerifSmallAlphabet(true)
	document.VerifBase(a.doc, typ)
	a.pushPull(ctx, document.StatusAttached, true)
	b.pushPull(ctx, document.StatusAttached, true)
	a.pushPull(ctx, document.StatusAttached, true)
	zzvsym.Assert(a.doc.Marshal() == b.doc.Marshal(), "base-replicas-converge")
	document.VerifSkew(a.doc, "skewA")
	document.VerifSkew(b.doc, "skewB")

	document.VerifEdit(a.doc, "a0", typ, 10)
	if zzvsym.IntRange("syncA0", 0, 1) == 1 {
		a.pushPull(ctx, document.StatusAttached, true)
	}
	if zzvsym.IntRange("syncB0", 0, 1) == 1 {
		b.pushPull(ctx, document.StatusAttached, true)
	}
	document.VerifEdit(b.doc, "b0", typ, 20)
	if zzvsym.IntRange("syncB1", 0, 1) == 1 {
		b.pushPull(ctx, document.StatusAttached, true)
	}
	if zzvsym.Tier() > 0 {
		document.VerifEdit(a.doc, "a1", typ, 11)
	}
	for i := 0; i < 2; i++ {
		a.pushPull(ctx, document.StatusAttached, true)
		b.pushPull(ctx, document.StatusAttached, true)
	}
	zzvsym.Reach("quiescent")
	zzvsym.Assert(!a.failed && !b.failed, "no-sync-failed")
	zzvsym.Assert(a.doc.Marshal() == b.doc.Marshal(), "replicas-converge-through-the-real-server")
	document.VerifCheckClone(a.doc, "final-a")
	document.VerifCheckClone(b.doc, "final-b")
	zzvsym.Assert(document.VerifPendingChanges(a.doc) == 0 && document.VerifPendingChanges(b.doc) == 0, "every-pushed-change-acknowledged")
	vCheckLog(ctx, be, a.refKey)
	vCheckMinVV(ctx, be, a.refKey, a, b)
	zzvsym.Observe(a.doc.Marshal())
}
