//go:build verif

//verif:pkg pkg/document

package document

import (
	"bytes"

	"google.golang.org/protobuf/proto"

	"github.com/yorkie-team/yorkie/api/converter"
	api "github.com/yorkie-team/yorkie/api/yorkie/v1"
	"github.com/yorkie-team/yorkie/internal/zzvsym"
	"github.com/yorkie-team/yorkie/pkg/document/json"
	"github.com/yorkie-team/yorkie/pkg/document/presence"
)

// Structural comparison of two encoded snapshots: every field the wire
// format carries, including tombstones, split links and attribute tickets.

func vTkEq(a, b *api.TimeTicket) bool {
	if a == nil || b == nil {
		return a == nil && b == nil
	}
	return a.Lamport == b.Lamport && a.Delimiter == b.Delimiter && bytes.Equal(a.ActorId, b.ActorId)
}

func vTextIDEq(a, b *api.TextNodeID) bool {
	if a == nil || b == nil {
		return a == nil && b == nil
	}
	return a.Offset == b.Offset && vTkEq(a.CreatedAt, b.CreatedAt)
}

func vTreeIDEq(a, b *api.TreeNodeID) bool {
	if a == nil || b == nil {
		return a == nil && b == nil
	}
	return a.Offset == b.Offset && vTkEq(a.CreatedAt, b.CreatedAt)
}

func vAttrsEq(a, b map[string]*api.NodeAttr) bool {
	if len(a) != len(b) {
		return false
	}
	for k, x := range a {
		y, ok := b[k]
		if !ok || x.Value != y.Value || x.IsRemoved != y.IsRemoved || !vTkEq(x.UpdatedAt, y.UpdatedAt) {
			return false
		}
	}
	return true
}

// vElemEq returns "" when the two encoded elements are identical, else the
// name of the first differing field.
func vElemEq(a, b *api.JSONElement) string { return vElemEqM(a, b, false) }

// vRemEq compares removal tickets. For the element of an object member only
// presence is compared: ElementRHT.Set re-tombstones an overwritten member
// with the ticket of whichever newer member is inserted after it, and the
// decoder inserts members in map order, so the ticket of an overwritten
// member may legitimately grow (it only delays its collection).
func vRemEq(a, b *api.TimeTicket, member bool) bool {
	if member {
		return (a == nil) == (b == nil)
	}
	return vTkEq(a, b)
}

func vElemEqM(a, b *api.JSONElement, member bool) string {
	if a == nil || b == nil {
		if a == nil && b == nil {
			return ""
		}
		return "element-presence"
	}
	switch x := a.Body.(type) {
	case *api.JSONElement_JsonObject:
		y, ok := b.Body.(*api.JSONElement_JsonObject)
		if !ok {
			return "body-kind"
		}
		p, q := x.JsonObject, y.JsonObject
		if !vTkEq(p.CreatedAt, q.CreatedAt) || !vTkEq(p.MovedAt, q.MovedAt) || !vRemEq(p.RemovedAt, q.RemovedAt, member) {
			return "object-tickets"
		}
		if len(p.Nodes) != len(q.Nodes) {
			return "object-member-count"
		}
		// members are emitted in map order: match them by key and creation ticket
		for _, m := range p.Nodes {
			found := false
			for _, n := range q.Nodes {
				if m.Key == n.Key && vElemCreated(m.Element, n.Element) {
					found = true
					if d := vElemEqM(m.Element, n.Element, true); d != "" {
						return d
					}
				}
			}
			if !found {
				return "object-member-missing"
			}
		}
	case *api.JSONElement_JsonArray:
		y, ok := b.Body.(*api.JSONElement_JsonArray)
		if !ok {
			return "body-kind"
		}
		p, q := x.JsonArray, y.JsonArray
		if !vTkEq(p.CreatedAt, q.CreatedAt) || !vTkEq(p.MovedAt, q.MovedAt) || !vRemEq(p.RemovedAt, q.RemovedAt, member) {
			return "array-tickets"
		}
		if len(p.Nodes) != len(q.Nodes) {
			return "array-slot-count"
		}
		for i := range p.Nodes {
			m, n := p.Nodes[i], q.Nodes[i]
			if !vTkEq(m.PositionCreatedAt, n.PositionCreatedAt) || !vTkEq(m.PositionMovedAt, n.PositionMovedAt) || !vTkEq(m.PositionRemovedAt, n.PositionRemovedAt) {
				return "array-slot-tickets"
			}
			if d := vElemEq(m.Element, n.Element); d != "" {
				return d
			}
		}
	case *api.JSONElement_Primitive_:
		y, ok := b.Body.(*api.JSONElement_Primitive_)
		if !ok {
			return "body-kind"
		}
		p, q := x.Primitive, y.Primitive
		if p.Type != q.Type || !bytes.Equal(p.Value, q.Value) || !vTkEq(p.CreatedAt, q.CreatedAt) || !vTkEq(p.MovedAt, q.MovedAt) || !vRemEq(p.RemovedAt, q.RemovedAt, member) {
			return "primitive"
		}
	case *api.JSONElement_Counter_:
		y, ok := b.Body.(*api.JSONElement_Counter_)
		if !ok {
			return "body-kind"
		}
		p, q := x.Counter, y.Counter
		if p.Type != q.Type || !bytes.Equal(p.Value, q.Value) || !bytes.Equal(p.HllRegisters, q.HllRegisters) || !vTkEq(p.CreatedAt, q.CreatedAt) || !vTkEq(p.MovedAt, q.MovedAt) || !vRemEq(p.RemovedAt, q.RemovedAt, member) {
			return "counter"
		}
	case *api.JSONElement_Text_:
		y, ok := b.Body.(*api.JSONElement_Text_)
		if !ok {
			return "body-kind"
		}
		p, q := x.Text, y.Text
		if !vTkEq(p.CreatedAt, q.CreatedAt) || !vTkEq(p.MovedAt, q.MovedAt) || !vRemEq(p.RemovedAt, q.RemovedAt, member) {
			return "text-tickets"
		}
		if len(p.Nodes) != len(q.Nodes) {
			return "text-node-count"
		}
		for i := range p.Nodes {
			m, n := p.Nodes[i], q.Nodes[i]
			if !vTextIDEq(m.Id, n.Id) || m.Value != n.Value || !vTkEq(m.RemovedAt, n.RemovedAt) {
				return "text-node"
			}
			if !vTextIDEq(m.InsPrevId, n.InsPrevId) {
				return "text-node-ins-prev"
			}
			if !vAttrsEq(m.Attributes, n.Attributes) {
				return "text-node-attributes"
			}
		}
	case *api.JSONElement_Tree_:
		y, ok := b.Body.(*api.JSONElement_Tree_)
		if !ok {
			return "body-kind"
		}
		p, q := x.Tree, y.Tree
		if !vTkEq(p.CreatedAt, q.CreatedAt) || !vTkEq(p.MovedAt, q.MovedAt) || !vRemEq(p.RemovedAt, q.RemovedAt, member) {
			return "tree-tickets"
		}
		if len(p.Nodes) != len(q.Nodes) {
			return "tree-node-count"
		}
		for i := range p.Nodes {
			m, n := p.Nodes[i], q.Nodes[i]
			if !vTreeIDEq(m.Id, n.Id) || m.Type != n.Type || m.Value != n.Value || m.Depth != n.Depth || !vTkEq(m.RemovedAt, n.RemovedAt) {
				return "tree-node"
			}
			if !vTreeIDEq(m.InsPrevId, n.InsPrevId) {
				return "tree-node-ins-prev"
			}
			if !vTreeIDEq(m.InsNextId, n.InsNextId) {
				return "tree-node-ins-next"
			}
			if !vTreeIDEq(m.MergedFrom, n.MergedFrom) || !vTkEq(m.MergedAt, n.MergedAt) {
				return "tree-node-merge-marks"
			}
			if !vAttrsEq(m.Attributes, n.Attributes) {
				return "tree-node-attributes"
			}
		}
	default:
		return "unknown-body"
	}
	return ""
}

// vElemCreated: same creation ticket (member identity inside an object).
func vElemCreated(a, b *api.JSONElement) bool {
	ca, cb := vCreatedOf(a), vCreatedOf(b)
	return vTkEq(ca, cb)
}

func vCreatedOf(e *api.JSONElement) *api.TimeTicket {
	switch x := e.GetBody().(type) {
	case *api.JSONElement_JsonObject:
		return x.JsonObject.CreatedAt
	case *api.JSONElement_JsonArray:
		return x.JsonArray.CreatedAt
	case *api.JSONElement_Primitive_:
		return x.Primitive.CreatedAt
	case *api.JSONElement_Counter_:
		return x.Counter.CreatedAt
	case *api.JSONElement_Text_:
		return x.Text.CreatedAt
	case *api.JSONElement_Tree_:
		return x.Tree.CreatedAt
	}
	return nil
}

// vSnapshotStructure: encoding a document, decoding it and encoding the
// result again yields the same structure, field by field: decoding loses
// nothing that encoding emits (tombstones, split links, attribute tickets,
// array position identities, HLL registers), and the decoded copy shows the
// same content.
func vSnapshotStructure(d *InternalDocument, tag string) {
	b1, err := converter.SnapshotToBytes(d.RootObject(), d.AllPresences())
	zzvsym.Assert(err == nil, tag+"-snapshot-encode-no-error")
	if err != nil {
		return
	}
	obj, _, err := converter.BytesToSnapshot(b1)
	zzvsym.Assert(err == nil, tag+"-snapshot-decode-no-error")
	if err != nil {
		return
	}
	zzvsym.Assert(obj.Marshal() == d.Marshal(), tag+"-snapshot-reproduces-content")
	b2, err := converter.SnapshotToBytes(obj, d.AllPresences())
	zzvsym.Assert(err == nil, tag+"-snapshot-reencode-no-error")
	if err != nil {
		return
	}
	var s1, s2 api.Snapshot
	zzvsym.Assert(proto.Unmarshal(b1, &s1) == nil && proto.Unmarshal(b2, &s2) == nil, tag+"-snapshot-parse-no-error")
	diff := vElemEq(s1.Root, s2.Root)
	zzvsym.Assert(diff == "", tag+"-snapshot-structure-survives-decode")
	if diff != "" {
		zzvsym.Assert(false, tag+"-snapshot-loses-"+diff)
	}
}

// VerifR13SnapshotStructure: documents holding the structures that only
// histories create -- tombstoned and split text nodes, text and tree
// attributes that were overwritten or removed, tree elements split more than
// once (nodes with both split links), merged paragraphs, moved / replaced /
// deleted array slots, overwritten and deleted object members -- keep every
// encoded field through the snapshot round trip.
func VerifR13SnapshotStructure() {
	a := vReplica("actA")
	typ := zzvsym.IntRange("type", 0, vNumTypes) // vNumTypes: deep tree
	if typ < vNumTypes {
		vBase(a, typ)
		vSkew(a, "skewA")
		vSmallAlphabet = zzvsym.Tier() > 0 // four edits: reduced index alphabets
		n := 3 + zzvsym.Tier()
		for i := 0; i < n; i++ {
			vEdit(a, vName("e", i), typ, 10+i)
		}
	} else {
		err := a.Update(func(root *json.Object, p *presence.Presence) error {
			root.SetNewTree("tree", json.TreeNode{Type: "r", Children: []json.TreeNode{
				{Type: "p", Attributes: map[string]string{"w": "1"}, Children: []json.TreeNode{{Type: "text", Value: "abcdef"}}},
				{Type: "p", Children: []json.TreeNode{{Type: "text", Value: "gh"}}},
			}})
			return nil
		})
		zzvsym.Assert(err == nil, "base-update-no-error")
		vSkew(a, "skewA")
		// <r><p>abcdef</p><p>gh</p></r>: indexes 1..7 lie inside the first paragraph
		steps := 3 + zzvsym.Tier()
		for i := 0; i < steps; i++ {
			k := zzvsym.IntRange(vName("k", i), 0, 4)
			var panicked bool
			err := error(nil)
			panicked = zzvsym.Fails(func() {
				err = a.Update(func(root *json.Object, p *presence.Presence) error {
					tr := root.GetTree("tree")
					switch k {
					case 0: // split the first paragraph (level 1) at a symbolic position
						at := zzvsym.IntRange(vName("at", i), 2, 3)
						tr.Edit(at, at, nil, 1)
					case 1: // merge the first two paragraphs
						sizes, ok := vTreeParas(tr.ToXML())
						zzvsym.Assume(ok && len(sizes) >= 2)
						tr.Edit(sizes[0]-1, sizes[0]+1, nil, 0)
					case 2:
						tr.Style(0, 1, map[string]string{"w": "2"})
					case 3:
						tr.RemoveStyle(0, 1, []string{"w"})
					case 4: // delete the first character
						tr.Edit(1, 2, nil, 0)
					}
					return nil
				})
			})
			zzvsym.Assert(!panicked && err == nil, "tree-edit-accepted")
		}
	}
	zzvsym.Reach("built")
	vSnapshotStructure(a.InternalDocument(), "history")
	zzvsym.Observe(a.Marshal())
}
