//go:build verif

//verif:pkg pkg/document

package document

import (
	"errors"

	"github.com/yorkie-team/yorkie/api/types"
	"github.com/yorkie-team/yorkie/internal/zzvsym"
	"github.com/yorkie-team/yorkie/pkg/document/json"
	"github.com/yorkie-team/yorkie/pkg/document/presence"
)

var vErrUpdater = errors.New("updater failed")

// VerifR6UpdateAtomic: an Update whose callback fails (returns an error,
// panics, or exceeds the size limit) after 0..2 edits leaves the document,
// its pending changes, checkpoint, clocks and undo history exactly as
// before, and the copy shown to users equals the authoritative document.
func VerifR6UpdateAtomic() {
	a, b := vReplica("actA"), vReplica("actB")
	zzvsym.DistinctActors("actA", "actB")
	s := vNewSrv()
	typ := zzvsym.IntRange("type", 0, vNumTypes-1)
	vSmallAlphabet = true
	vBase(a, typ)
	zzvsym.Assert(a.ClearHistory() == nil, "clear-history-no-error") // an undo never removes the base content
	s.sync(0, a)
	s.sync(1, b)
	s.sync(0, a)
	// prior steps: a local edit, a remote change, an undo
	prior := func(d *Document) {
		if zzvsym.Tier() > 0 {
			vEdit(d, "p0", typ, 5)
			return
		}
		err, panicked := vApply(d, vFixedOp(typ, 5))
		zzvsym.Assert(err == nil && !panicked, "prior-edit-accepted")
	}
	switch zzvsym.IntRange("prior", 0, 3) {
	case 1:
		prior(a)
	case 2:
		prior(b)
		s.sync(1, b)
		s.sync(0, a)
	case 3:
		prior(a)
		if a.CanUndo() {
			zzvsym.Assert(a.Undo() == nil, "prior-undo-no-error")
		}
	}
	vCheckClone(a, "before")
	preMarshal := a.Marshal()
	preChanges := len(a.CreateChangePack().Changes)
	preCP := a.Checkpoint()
	preVV := a.VersionVector().Marshal()
	preUndo, preRedo := a.CanUndo(), a.CanRedo()
	preUndoLen := a.UndoStackLenForTest()
	// the failing update
	k := zzvsym.IntRange("edits", 0, 2)
	mode := zzvsym.IntRange("mode", 0, 3)
	leakPresence := zzvsym.IntRange("presenceEdit", 0, 1) == 1
	prePresence := vPresenceOf(a, a.ActorID())
	ops := make([]vOp, k)
	for i := range ops {
		// the first edit ranges over the alphabet (chosen against the
		// pre-state); a second one is a fixed representative edit
		if i == 0 {
			ops[i] = vPick(a, vName("f", i), typ, 40+i)
		} else {
			ops[i] = vFixedOp(typ, 40+i)
		}
	}
	if mode == 2 {
		limit := zzvsym.Int("limit")
		zzvsym.Assume(limit > 0)
		a.MaxSizeLimit = limit
	}
	// mode 3: the attached schema requires the container to keep its type
	ruleKey := []string{"o", "arr", "txt", "cnt", "tree"}[typ]
	if mode == 3 {
		ruleType := []string{"object", "array", "yorkie.Text", "yorkie.Counter", "yorkie.Tree"}[typ]
		a.SchemaRules = []types.Rule{{Path: "$." + ruleKey, Type: ruleType}}
	}
	var err error
	panicked := zzvsym.Fails(func() {
		err = a.Update(func(root *json.Object, p *presence.Presence) error {
			for _, op := range ops {
				vApplyIn(root, op)
			}
			if leakPresence {
				p.Set("leak", "1")
			}
			if mode == 3 {
				root.SetString(ruleKey, "not-a-container") // violates the rule; the callback itself succeeds
			}
			switch mode {
			case 0:
				return vErrUpdater
			case 1:
				panic("updater panics")
			}
			return nil
		})
	})
	a.MaxSizeLimit = 0
	if mode == 3 && !panicked {
		zzvsym.Assert(errors.Is(err, ErrSchemaValidationFailed), "schema-violation-rejected")
	}
	failed := panicked || err != nil
	zzvsym.Reach("update-returned")
	// (an edit chosen against the pre-state can be out of range after the
	// previous edit of the same callback: then the callback itself panics,
	// which is just another way for the updater to fail)
	if mode == 0 && !panicked {
		zzvsym.Assert(err == vErrUpdater, "updater-error-returned")
	}
	if mode == 1 {
		zzvsym.Assert(panicked, "updater-panic-propagates")
	}
	if failed {
		zzvsym.Reach("update-failed")
		zzvsym.Assert(a.Marshal() == preMarshal, "failed-update-keeps-content")
		zzvsym.Assert(len(a.CreateChangePack().Changes) == preChanges, "failed-update-keeps-pending-changes")
		zzvsym.Assert(a.Checkpoint().Equal(preCP), "failed-update-keeps-checkpoint")
		zzvsym.Assert(a.VersionVector().Marshal() == preVV, "failed-update-keeps-version-vector")
		zzvsym.Assert(a.CanUndo() == preUndo, "failed-update-keeps-can-undo")
		zzvsym.Assert(a.CanRedo() == preRedo, "failed-update-keeps-can-redo")
		zzvsym.Assert(a.UndoStackLenForTest() == preUndoLen, "failed-update-keeps-undo-stack")
		zzvsym.Assert(a.Root().Marshal() == preMarshal, "failed-update-clone-shows-pre-call-content")
		zzvsym.Assert(vPresenceOf(a, a.ActorID()) == prePresence, "failed-update-keeps-presence")
	}
	vCheckClone(a, "after")
	// the next successful update sees the right content and still syncs
	nerr, npanicked := vApply(a, vFixedOp(typ, 50))
	zzvsym.Assert(nerr == nil && !npanicked, "next-update-accepted")
	vCheckClone(a, "after-next-update")
	s.sync(0, a)
	s.sync(1, b)
	s.sync(0, a)
	vConverged("final", a, b)
	zzvsym.Observe(failed, a.Marshal())
}
