//go:build verif

//verif:pkg server/packs

package packs

import (
	"context"
	"fmt"

	"github.com/yorkie-team/yorkie/api/types"
	"github.com/yorkie-team/yorkie/internal/zzvsym"
	"github.com/yorkie-team/yorkie/pkg/document"
	"github.com/yorkie-team/yorkie/pkg/document/change"
	"github.com/yorkie-team/yorkie/pkg/document/time"
	"github.com/yorkie-team/yorkie/server/backend"
	"github.com/yorkie-team/yorkie/server/backend/database"
	"github.com/yorkie-team/yorkie/server/backend/database/memory"
	"github.com/yorkie-team/yorkie/server/logging"
	"github.com/yorkie-team/yorkie/server/profiling/prometheus"
)

const (
	vSelfID  = "000000000000000000000001"
	vOtherID = "000000000000000000000002"
	vDocID   = "doc000000000000000000001"
	vProjID  = "proj00000000000000000001"
)

type vWorld struct {
	be      *backend.Backend
	db      *memory.DB
	project *types.Project
	docKey  types.DocRefKey
}

func vNewWorld() *vWorld {
	db, err := memory.New()
	zzvsym.Assert(err == nil, "memdb-new-no-error")
	logging.DefaultLogger() // natively: initialise the default logger that logging.From falls back to
	metrics, err := prometheus.NewMetrics()
	zzvsym.Assert(err == nil, "metrics-new-no-error")
	be := backend.VerifNewBackend(&backend.Config{Hostname: "h"}, db, metrics)
	return &vWorld{
		be:      be,
		db:      db,
		project: &types.Project{ID: vProjID, SnapshotThreshold: 1 << 40, SnapshotInterval: 1 << 40},
		docKey:  types.DocRefKey{ProjectID: vProjID, DocID: vDocID},
	}
}

func vActorOf(id string) time.ActorID {
	a, err := time.ActorIDFromHex(id)
	zzvsym.Assert(err == nil, "actor-id-parse")
	return a
}

// vSeedLog stores the tail of an existing change log: rows H-k+1..H with
// selected authors and symbolic client sequence numbers that respect
// per-author monotonicity (the state invariant of the log).
func (w *vWorld) vSeedLog(head int64, k int) (selfMax uint32) {
	var lastSelf, lastOther uint32
	for i := 0; i < k; i++ {
		seq := head - int64(k-1-i)
		author := vOtherID
		if zzvsym.IntRange(fmt.Sprintf("author%d", i), 0, 1) == 0 {
			author = vSelfID
		}
		cs := zzvsym.Uint32(fmt.Sprintf("logcs%d", i))
		zzvsym.Assume(cs >= 1)
		zzvsym.Assume(cs < 1<<31)
		if author == vSelfID {
			zzvsym.Assume(cs > lastSelf)
			lastSelf = cs
		} else {
			zzvsym.Assume(cs > lastOther)
			lastOther = cs
		}
		err := w.db.VerifInsert(memory.VerifTblChanges, &database.ChangeInfo{
			ID: types.ID(fmt.Sprintf("chg%020d", i)), ProjectID: vProjID, DocID: vDocID,
			ServerSeq: seq, ClientSeq: cs, Lamport: seq, ActorID: types.ID(author),
			VersionVector: time.NewVersionVector(),
		})
		zzvsym.Assert(err == nil, "seed-change-no-error")
	}
	return lastSelf
}

// VerifK12PushPullStep: one PushPull of the real server code
// (validateClientSeqContinuity -> pushPack -> CreateChangeInfos ->
// preparePack/pullChangeInfos -> pullPack) from a symbolic but consistent
// server state. Post-conditions are the clauses of C04.
func VerifK12PushPullStep() {
	w := vNewWorld()
	ctx := context.Background()
	// --- pre-state
	head := zzvsym.Int64("head")
	k := zzvsym.IntRange("logTail", 0, 2)
	zzvsym.Assume(head >= int64(k))
	zzvsym.Assume(head < 1<<40)
	selfMax := w.vSeedLog(head, k)
	epoch := zzvsym.Int64("epoch")
	zzvsym.Assert(w.db.VerifInsert(memory.VerifTblDocuments, &database.DocInfo{
		ID: vDocID, ProjectID: vProjID, Key: "k", ServerSeq: head, Epoch: epoch,
	}) == nil, "seed-doc-no-error")
	// the requester's stored checkpoint: s <= head, c >= every own stored clientSeq
	storedS := zzvsym.Int64("storedS")
	storedC := zzvsym.Uint32("storedC")
	zzvsym.Assume(storedS >= 0)
	zzvsym.Assume(storedS <= head)
	zzvsym.Assume(storedC >= selfMax)
	zzvsym.Assume(storedC < 1<<31)
	clientInfo := &database.ClientInfo{
		ID: vSelfID, ProjectID: vProjID, Key: "c", Status: database.ClientActivated,
		Documents: database.ClientDocInfoMap{vDocID: {Status: database.DocumentAttached, ServerSeq: storedS, ClientSeq: storedC, Epoch: epoch}},
	}
	zzvsym.Assert(w.db.VerifInsert(memory.VerifTblClients, clientInfo.DeepCopy()) == nil, "seed-client-no-error")
	// --- request: n changes with consecutive clientSeqs, possibly resending acknowledged ones
	n := zzvsym.IntRange("nchanges", 0, 2)
	first := zzvsym.Uint32("firstClientSeq")
	zzvsym.Assume(first >= 1)
	zzvsym.Assume(first <= storedC+1) // resend of stored changes allowed, gaps are K11's business
	var cs []*change.Change
	fresh := 0
	for i := 0; i < n; i++ {
		seq := first + uint32(i)
		if seq > storedC {
			fresh++
		}
		id := change.NewID(seq, 0, int64(100+i), vActorOf(vSelfID), time.NewVersionVector())
		cs = append(cs, change.New(id, "", nil, nil))
	}
	// the client's own checkpoint: it may lag behind the head; keep the pulled range inside the seeded tail
	reqS := zzvsym.Int64("reqS")
	zzvsym.Assume(reqS >= head-int64(k))
	zzvsym.Assume(reqS <= head)
	zzvsym.Assume(reqS >= 0)
	reqPack := change.NewPack("k", change.NewCheckpoint(reqS, first+uint32(n)-1), cs, time.NewVersionVector(), nil)
	mode := types.SyncModePushPull
	if zzvsym.IntRange("pushOnly", 0, 1) == 1 {
		mode = types.SyncModePushOnly
	}
	before := w.db.VerifChanges(vDocID)
	res, err := PushPull(ctx, w.be, w.project, clientInfo, w.docKey, reqPack, PushPullOptions{Mode: mode, Status: document.StatusAttached})
	zzvsym.Reach("pushpull-returned")
	zzvsym.Assert(err == nil, "pushpull-no-error")
	if err != nil {
		return
	}
	zzvsym.Reach("pushpull-succeeded")
	// 1. new rows have consecutive server sequence numbers head+1..head+fresh
	after := w.db.VerifChanges(vDocID)
	zzvsym.Assert(len(after) == len(before)+fresh, "exactly-the-new-changes-are-stored")
	for i := 0; i < fresh && len(before)+i < len(after); i++ {
		row := after[len(before)+i]
		zzvsym.Assert(row.ServerSeq == head+int64(i)+1, "server-seqs-consecutive")
		zzvsym.Assert(row.ClientSeq == storedC+uint32(i)+1, "client-seqs-stored-in-order-exactly-once")
		zzvsym.Assert(row.ActorID == vSelfID, "stored-under-author")
	}
	doc := w.db.VerifDoc(vDocID)
	zzvsym.Assert(doc != nil && doc.ServerSeq == head+int64(fresh), "doc-head-advanced-by-stored-changes")
	// 3. pulled = log rows in (reqS, head] by others (or own ones beyond the acknowledged clientSeq), in order
	if mode == types.SyncModePushPull {
		idx := 0
		for _, row := range before {
			if row.ServerSeq <= reqS {
				continue
			}
			own := row.ActorID == vSelfID
			ackd := storedC
			if fresh > 0 {
				ackd = storedC + uint32(fresh)
			}
			if own && row.ClientSeq <= ackd {
				continue // no echo
			}
			zzvsym.Assert(idx < len(res.ChangeInfos), "pull-misses-a-change")
			if idx < len(res.ChangeInfos) {
				zzvsym.Assert(res.ChangeInfos[idx].ServerSeq == row.ServerSeq, "pull-in-sequence-order-without-gap")
			}
			idx++
		}
		zzvsym.Assert(len(res.ChangeInfos) == idx, "pull-has-no-duplicate-or-echo")
		// 4. response checkpoint
		zzvsym.Assert(res.Checkpoint.ServerSeq == head+int64(fresh), "response-checkpoint-is-new-head")
		zzvsym.Assert(res.Checkpoint.ServerSeq >= reqS, "response-checkpoint-monotone")
	} else {
		zzvsym.Assert(len(res.ChangeInfos) == 0, "push-only-pulls-nothing")
		zzvsym.Assert(res.Checkpoint.ServerSeq == reqS, "push-only-keeps-server-seq")
	}
	zzvsym.Assert(res.Checkpoint.ClientSeq >= storedC, "response-client-seq-never-decreases")
	zzvsym.Assert(res.Checkpoint.ClientSeq == storedC+uint32(fresh), "response-acknowledges-exactly-the-stored-changes")
	// 5. the stored client checkpoint is the max-merge and never exceeds the head
	ci := w.db.VerifClient(vSelfID)
	zzvsym.Assert(ci != nil, "client-row-exists")
	if ci != nil {
		di := ci.Documents[vDocID]
		zzvsym.Assert(di.ClientSeq == storedC+uint32(fresh), "stored-client-seq-acknowledges-stored-changes")
		zzvsym.Assert(di.ServerSeq <= head+int64(fresh), "stored-checkpoint-never-exceeds-head")
		zzvsym.Assert(di.ServerSeq >= storedS, "stored-checkpoint-monotone")
		zzvsym.Assert(di.Status == database.DocumentAttached, "status-kept")
	}
	zzvsym.Observe(len(after), len(res.ChangeInfos), res.Checkpoint.ClientSeq-storedC)
}
