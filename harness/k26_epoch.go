//go:build verif

//verif:pkg server/packs

package packs

import (
	"context"
	"errors"

	"github.com/yorkie-team/yorkie/api/types"
	"github.com/yorkie-team/yorkie/internal/zzvsym"
	"github.com/yorkie-team/yorkie/pkg/document"
	"github.com/yorkie-team/yorkie/pkg/document/change"
	"github.com/yorkie-team/yorkie/pkg/document/time"
	"github.com/yorkie-team/yorkie/server/backend/database"
	"github.com/yorkie-team/yorkie/server/backend/database/memory"
)

// VerifK26EpochGuard: after a compaction a client still holding the old
// generation (epoch) is refused, not merged: none of its changes enter the
// log, the head does not move, PushPull answers ErrEpochMismatch -- except
// for a detach / remove, which succeeds with an empty pull.
func VerifK26EpochGuard() {
	w := vNewWorld()
	ctx := context.Background()
	docEpoch := zzvsym.Int64("docEpoch")
	clientEpoch := zzvsym.Int64("clientEpoch")
	head := zzvsym.Int64("head")
	zzvsym.Assume(head >= 0)
	zzvsym.Assume(head < 1<<40)
	zzvsym.Assert(w.db.VerifInsert(memory.VerifTblDocuments, &database.DocInfo{ID: vDocID, ProjectID: vProjID, Key: "k", ServerSeq: head, Epoch: docEpoch}) == nil, "seed-doc")
	storedC := zzvsym.Uint32("storedC")
	zzvsym.Assume(storedC < 1<<30)
	reqS := zzvsym.Int64("reqS")
	zzvsym.Assume(reqS >= 0)
	zzvsym.Assume(reqS <= head)
	ci := &database.ClientInfo{ID: vSelfID, ProjectID: vProjID, Key: "c", Status: database.ClientActivated,
		Documents: database.ClientDocInfoMap{vDocID: {Status: database.DocumentAttached, ServerSeq: reqS, ClientSeq: storedC, Epoch: clientEpoch}}}
	zzvsym.Assert(w.db.VerifInsert(memory.VerifTblClients, ci.DeepCopy()) == nil, "seed-client")
	n := zzvsym.IntRange("nchanges", 0, 2)
	var cs []*change.Change
	for i := 0; i < n; i++ {
		id := change.NewID(storedC+1+uint32(i), 0, int64(100+i), vActorOf(vSelfID), time.NewVersionVector())
		cs = append(cs, change.New(id, "", nil, nil))
	}
	pack := change.NewPack("k", change.NewCheckpoint(reqS, storedC+uint32(n)), cs, time.NewVersionVector(), nil)
	status := []document.StatusType{document.StatusAttached, document.StatusDetached, document.StatusRemoved}[zzvsym.IntRange("status", 0, 2)]
	if status == document.StatusRemoved {
		pack.IsRemoved = true
	}
	res, err := PushPull(ctx, w.be, w.project, ci, w.docKey, pack, PushPullOptions{Mode: types.SyncModePushPull, Status: status})
	zzvsym.Reach("returned")
	stale := clientEpoch != docEpoch
	rows := w.db.VerifChanges(vDocID)
	doc := w.db.VerifDoc(vDocID)
	if stale {
		zzvsym.Reach("stale")
		zzvsym.Assert(len(rows) == 0, "stale-client-adds-no-row-to-the-log")
		zzvsym.Assert(doc.ServerSeq == head, "stale-client-does-not-move-the-head")
		if status == document.StatusAttached {
			zzvsym.Assert(err != nil && errors.Is(err, ErrEpochMismatch), "stale-pushpull-answers-epoch-mismatch")
		} else {
			zzvsym.Assert(err == nil, "stale-detach-or-remove-succeeds")
			if err == nil {
				zzvsym.Assert(len(res.ChangeInfos) == 0 && len(res.Snapshot) == 0, "stale-detach-pulls-nothing")
				row := w.db.VerifClient(vSelfID)
				want := database.DocumentDetached
				if status == document.StatusRemoved {
					want = database.DocumentRemoved
				}
				zzvsym.Assert(row.Documents[vDocID].Status == want, "stale-detach-takes-effect")
			}
		}
	} else {
		zzvsym.Assert(err == nil, "current-epoch-is-served")
		zzvsym.Assert(len(rows) == n, "current-epoch-stores-changes")
	}
	zzvsym.Assert(doc.Epoch == docEpoch, "pushpull-never-changes-the-epoch")
	zzvsym.Observe(err == nil, len(rows))
}
