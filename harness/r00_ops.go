//go:build verif

//verif:pkg pkg/document

package document

import (
	"github.com/yorkie-team/yorkie/internal/zzvsym"
	"github.com/yorkie-team/yorkie/pkg/document/json"
	"github.com/yorkie-team/yorkie/pkg/document/presence"
)

// Content types of the operation alphabet.
const (
	vTObject = iota
	vTArray
	vTText
	vTCounter
	vTTree
	vNumTypes
)

// vBase builds the shared base document on replica d. typ selects which
// content type it holds (-1: all of them); only the type under test is
// needed because edits of different types touch disjoint structures.
func vBase(d *Document, typ int) {
	err := d.Update(func(root *json.Object, p *presence.Presence) error {
		if typ < 0 || typ == vTObject {
			o := root.SetNewObject("o")
			o.SetInteger("a", 1)
			o.SetInteger("b", 2)
		}
		if typ < 0 || typ == vTArray {
			root.SetNewArray("arr").AddInteger(1, 2, 3)
		}
		if typ < 0 || typ == vTText {
			root.SetNewText("txt").Edit(0, 0, "abcd")
		}
		if typ < 0 || typ == vTCounter {
			root.SetNewCounter("cnt", 0)
		}
		if typ < 0 || typ == vTTree {
			root.SetNewTree("tree", json.TreeNode{
				Type: "r",
				Children: []json.TreeNode{
					{Type: "p", Children: []json.TreeNode{{Type: "text", Value: "ab"}}},
					{Type: "p", Children: []json.TreeNode{{Type: "text", Value: "cd"}}},
				},
			})
		}
		return nil
	})
	zzvsym.Assert(err == nil, "base-update-no-error")
}

// vSmallAlphabet restricts index choices to the ends of a sequence; set by
// harnesses with deep histories.
var vSmallAlphabet bool

// vOp is one edit of the alphabet with its concrete parameters.
type vOp struct {
	typ, k, i, j, val int
}

// vPick chooses one local edit of content type typ by selectors named
// after name. Indices are chosen within the bounds of what replica d
// currently shows, as a user of the index-based API would.
func vPick(d *Document, name string, typ int, val int) vOp {
	op := vOp{typ: typ, val: val}
	root := d.Root()
	switch typ {
	case vTObject:
		op.k = zzvsym.IntRange(name+"_k", 0, 3)
	case vTArray:
		n := root.GetArray("arr").Len()
		op.k = zzvsym.IntRange(name+"_k", 0, 7)
		if n == 0 {
			op.k = 4
		}
		idx := func(sel string) int {
			if vSmallAlphabet && n > 2 {
				// reduced alphabet for deep histories: first or last element
				return []int{0, n - 1}[zzvsym.IntRange(name+sel, 0, 1)]
			}
			return zzvsym.IntRange(name+sel, 0, n-1)
		}
		switch op.k {
		case 0, 1, 3, 5, 7:
			op.i = idx("_i")
		case 2, 6:
			zzvsym.Assume(n >= 2)
			op.i = idx("_i")
			op.j = idx("_j")
			zzvsym.Assume(op.i != op.j)
		}
	case vTText:
		n := len(root.GetText("txt").String()) // ASCII payloads only: UTF-16 length == byte length
		// representative ranges: both ends, the middle, first/last character,
		// the interior, everything
		pairs := [][2]int{{0, 0}, {n, n}, {n / 2, n / 2}, {0, 1}, {1, n - 1}, {n - 1, n}, {0, n}}
		ri := zzvsym.IntRange(name+"_r", 0, len(pairs)-1)
		if vSmallAlphabet {
			// reduced alphabet for deep histories: both ends, first character, interior, everything
			zzvsym.Assume(ri != 2 && ri != 5)
		}
		r := pairs[ri]
		zzvsym.Assume(r[0] >= 0 && r[0] <= r[1] && r[1] <= n)
		op.i, op.j = r[0], r[1]
		op.k = zzvsym.IntRange(name+"_k", 0, 2)
		if op.k != 0 {
			zzvsym.Assume(op.i < op.j)
		}
	case vTCounter:
	case vTTree:
		// structure-preserving domain (C01): text edits inside one element,
		// whole-element insert/delete, style. Index arithmetic is derived
		// from the XML the replica shows (flat <r><p>text</p>...</r>).
		tr := root.GetTree("tree")
		sizes, ok := vTreeParas(tr.ToXML())
		zzvsym.Assume(ok) // other shapes are outside the bound, not violations
		op.k = zzvsym.IntRange(name+"_k", 0, 5)
		switch op.k {
		case 0: // insert text inside the first paragraph
			zzvsym.Assume(len(sizes) > 0)
			op.i = zzvsym.IntRange(name+"_i", 1, sizes[0]-1)
			if vSmallAlphabet {
				zzvsym.Assume(op.i == 1 || op.i == sizes[0]-1) // front or back
			}
		case 1: // delete one character of the first paragraph
			zzvsym.Assume(len(sizes) > 0 && sizes[0] > 2)
			op.i = zzvsym.IntRange(name+"_i", 1, sizes[0]-2)
			if vSmallAlphabet {
				zzvsym.Assume(op.i == 1 || op.i == sizes[0]-2) // first or last character
			}
		case 2: // insert a whole element at a paragraph boundary
			j := zzvsym.IntRange(name+"_i", 0, len(sizes))
			for _, sz := range sizes[:j] {
				op.i += sz
			}
		case 3: // delete one whole paragraph
			zzvsym.Assume(len(sizes) > 0)
			j := zzvsym.IntRange(name+"_i", 0, len(sizes)-1)
			for _, sz := range sizes[:j] {
				op.i += sz
			}
			op.j = op.i + sizes[j]
		case 4, 5: // style / remove the style of the first paragraph
			zzvsym.Assume(len(sizes) > 0)
		}
	}
	return op
}

// vTreeParas parses the XML of a flat tree <r><p ...>text</p>...</r> and
// returns the index size of every paragraph (2 + number of characters).
func vTreeParas(xml string) ([]int, bool) {
	if len(xml) < 7 || xml[:3] != "<r>" || xml[len(xml)-4:] != "</r>" {
		return nil, false
	}
	body := xml[3 : len(xml)-4]
	var sizes []int
	for len(body) > 0 {
		if len(body) < 2 || body[:2] != "<p" {
			return nil, false
		}
		k := 2
		for k < len(body) && body[k] != '>' {
			k++
		}
		if k >= len(body) {
			return nil, false
		}
		body = body[k+1:]
		n := 0
		for n < len(body) && body[n] != '<' {
			n++
		}
		if len(body) < n+4 || body[n:n+4] != "</p>" {
			return nil, false
		}
		sizes = append(sizes, 2+n)
		body = body[n+4:]
	}
	return sizes, true
}

// vFixedOp is one representative edit per content type that is valid in
// every state the alphabets can produce.
func vFixedOp(typ, val int) vOp {
	switch typ {
	case vTObject:
		return vOp{typ: typ, k: 2, val: val} // set o.c
	case vTArray:
		return vOp{typ: typ, k: 4, val: val} // append
	case vTText:
		return vOp{typ: typ, k: 0, i: 0, j: 0, val: val} // insert at 0
	case vTTree:
		return vOp{typ: typ, k: 2, i: 0, val: val} // insert an element at the front
	}
	return vOp{typ: typ, val: val} // counter increase
}

// vApplyIn executes op inside an updater.
func vApplyIn(root *json.Object, op vOp) {
	val := op.val
	switch op.typ {
	case vTObject:
		o := root.GetObject("o")
		switch op.k {
		case 0:
			o.SetInteger("a", val)
		case 1:
			o.Delete("a")
		case 2:
			o.SetInteger("c", val)
		case 3:
			o.SetNewObject("a").SetInteger("n", val)
		}
	case vTArray:
		arr := root.GetArray("arr")
		switch op.k {
		case 0:
			arr.InsertIntegerAfter(op.i, val)
		case 1:
			arr.Delete(op.i)
		case 2:
			arr.MoveAfterByIndex(op.i, op.j)
		case 3:
			arr.SetInteger(op.i, val)
		case 4:
			arr.AddInteger(val)
		case 5: // move the element at index i to the front
			arr.MoveFront(arr.Get(op.i).CreatedAt())
		case 6: // move the element at index j right before the element at index i
			arr.MoveBefore(arr.Get(op.i).CreatedAt(), arr.Get(op.j).CreatedAt())
		case 7: // move the element at index i to the end
			arr.MoveLast(arr.Get(op.i).CreatedAt())
		}
	case vTText:
		txt := root.GetText("txt")
		switch op.k {
		case 0:
			txt.Edit(op.i, op.j, string(rune('A'+val%26)))
		case 1:
			txt.Edit(op.i, op.j, "")
		case 2:
			txt.Style(op.i, op.j, map[string]string{"b": string(rune('0' + val%10))})
		}
	case vTCounter:
		root.GetCounter("cnt").Increase(val)
	case vTTree:
		tr := root.GetTree("tree")
		switch op.k {
		case 0: // insert text inside the first paragraph
			tr.Edit(op.i, op.i, &json.TreeNode{Type: "text", Value: string(rune('A' + val%26))}, 0)
		case 1: // delete one character inside the first paragraph
			tr.Edit(op.i, op.i+1, nil, 0)
		case 2: // insert a whole element between / around the paragraphs
			tr.Edit(op.i, op.i, &json.TreeNode{Type: "p", Children: []json.TreeNode{{Type: "text", Value: string(rune('a' + val%26))}}}, 0)
		case 3: // delete a whole paragraph
			tr.Edit(op.i, op.j, nil, 0)
		case 4: // style the first paragraph
			tr.Style(0, 1, map[string]string{"b": string(rune('0' + val%10))})
		case 5: // remove that style
			tr.RemoveStyle(0, 1, []string{"b"})
		}
	}
}

// vApply executes op on d through the public API.
func vApply(d *Document, op vOp) (err error, panicked bool) {
	panicked = zzvsym.Fails(func() {
		err = d.Update(func(root *json.Object, p *presence.Presence) error {
			vApplyIn(root, op)
			return nil
		})
	})
	return err, panicked
}

// vEdit picks and performs one local edit; an edit chosen from the
// replica's own visible state must be accepted.
func vEdit(d *Document, name string, typ int, val int) vOp {
	op := vPick(d, name, typ, val)
	err, panicked := vApply(d, op)
	zzvsym.Assert(!panicked, "local-edit-no-panic")
	zzvsym.Assert(err == nil, "local-edit-no-error")
	vCheckClone(d, "after-local-edit")
	return op
}
