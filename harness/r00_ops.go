//go:build verif

//verif:pkg pkg/document

package document

import (
	"github.com/yorkie-team/yorkie/internal/zzvsym"
	"github.com/yorkie-team/yorkie/pkg/document/json"
	"github.com/yorkie-team/yorkie/pkg/document/presence"
)

// Content types of the operation alphabet.
const (
	vTObject = iota
	vTArray
	vTText
	vTCounter
	vTTree
	vNumTypes
)

// vBase builds the shared base document on replica d. typ selects which
// content type it holds (-1: all of them); only the type under test is
// needed because edits of different types touch disjoint structures.
func vBase(d *Document, typ int) {
	err := d.Update(func(root *json.Object, p *presence.Presence) error {
		if typ < 0 || typ == vTObject {
			o := root.SetNewObject("o")
			o.SetInteger("a", 1)
			o.SetInteger("b", 2)
		}
		if typ < 0 || typ == vTArray {
			root.SetNewArray("arr").AddInteger(1, 2, 3)
		}
		if typ < 0 || typ == vTText {
			root.SetNewText("txt").Edit(0, 0, "abcd")
		}
		if typ < 0 || typ == vTCounter {
			root.SetNewCounter("cnt", 0)
		}
		if typ < 0 || typ == vTTree {
			root.SetNewTree("tree", json.TreeNode{
				Type: "r",
				Children: []json.TreeNode{
					{Type: "p", Children: []json.TreeNode{{Type: "text", Value: "ab"}}},
					{Type: "p", Children: []json.TreeNode{{Type: "text", Value: "cd"}}},
				},
			})
		}
		return nil
	})
	zzvsym.Assert(err == nil, "base-update-no-error")
}

// vEdit performs one local edit of content type typ on d, chosen by
// selectors named after name. val makes payloads distinct per client/op.
// Indices are chosen within the bounds of what the replica currently shows,
// as a user of the index-based API would.
func vEdit(d *Document, name string, typ int, val int) {
	var paniced bool
	err := error(nil)
	paniced = zzvsym.Fails(func() {
		err = d.Update(func(root *json.Object, p *presence.Presence) error {
			switch typ {
			case vTObject:
				o := root.GetObject("o")
				switch zzvsym.IntRange(name+"_k", 0, 3) {
				case 0:
					o.SetInteger("a", val)
				case 1:
					o.Delete("a")
				case 2:
					o.SetInteger("c", val)
				case 3:
					o.SetNewObject("a").SetInteger("n", val)
				}
			case vTArray:
				arr := root.GetArray("arr")
				n := arr.Len()
				k := zzvsym.IntRange(name+"_k", 0, 4)
				if n == 0 {
					k = 4
				}
				switch k {
				case 0:
					arr.InsertIntegerAfter(zzvsym.IntRange(name+"_i", 0, n-1), val)
				case 1:
					arr.Delete(zzvsym.IntRange(name+"_i", 0, n-1))
				case 2:
					i := zzvsym.IntRange(name+"_i", 0, n-1)
					j := zzvsym.IntRange(name+"_j", 0, n-1)
					zzvsym.Assume(i != j)
					arr.MoveAfterByIndex(i, j)
				case 3:
					arr.SetInteger(zzvsym.IntRange(name+"_i", 0, n-1), val)
				case 4:
					arr.AddInteger(val)
				}
			case vTText:
				txt := root.GetText("txt")
				n := len(txt.String()) // ASCII payloads only: UTF-16 length == byte length
				from := zzvsym.IntRange(name+"_f", 0, n)
				to := zzvsym.IntRange(name+"_t", from, n)
				switch zzvsym.IntRange(name+"_k", 0, 2) {
				case 0:
					txt.Edit(from, to, string(rune('A'+val%26)))
				case 1:
					zzvsym.Assume(from < to)
					txt.Edit(from, to, "")
				case 2:
					zzvsym.Assume(from < to)
					txt.Style(from, to, map[string]string{"b": string(rune('0' + val%10))})
				}
			case vTCounter:
				root.GetCounter("cnt").Increase(val)
			case vTTree:
				tr := root.GetTree("tree")
				// structure-preserving domain (C01): text edits inside one
				// element, whole-element insert/delete, style
				switch zzvsym.IntRange(name+"_k", 0, 4) {
				case 0: // insert text inside the first paragraph
					i := zzvsym.IntRange(name+"_i", 1, 3)
					tr.Edit(i, i, &json.TreeNode{Type: "text", Value: string(rune('A' + val%26))}, 0)
				case 1: // delete one character inside the first paragraph
					i := zzvsym.IntRange(name+"_i", 1, 2)
					tr.Edit(i, i+1, nil, 0)
				case 2: // insert a whole element between / around the paragraphs
					i := []int{0, 4, 8}[zzvsym.IntRange(name+"_i", 0, 2)]
					if i > tr.Len() {
						i = tr.Len()
					}
					tr.Edit(i, i, &json.TreeNode{Type: "p", Children: []json.TreeNode{{Type: "text", Value: string(rune('a' + val%26))}}}, 0)
				case 3: // delete a whole paragraph
					zzvsym.Assume(tr.Len() >= 8)
					i := []int{0, 4}[zzvsym.IntRange(name+"_i", 0, 1)]
					tr.Edit(i, i+4, nil, 0)
				case 4: // style the first paragraph
					tr.Style(0, 1, map[string]string{"b": string(rune('0' + val%10))})
				}
			}
			return nil
		})
	})
	if paniced {
		// an index chosen from the replica's own visible state must be accepted
		zzvsym.Assert(false, "local-edit-no-panic")
	}
	zzvsym.Assert(err == nil, "local-edit-no-error")
	vCheckClone(d, "after-local-edit")
}
