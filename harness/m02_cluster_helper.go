//go:build verif

//verif:pkg cluster

package cluster

import (
	gotime "time"

	"github.com/yorkie-team/yorkie/api/yorkie/v1/v1connect"
)

// VerifLoopbackPool returns a client pool whose only client talks to the
// given in-process implementation of the cluster service (the node's own
// handler) instead of dialling addr: clients.Deactivate and friends then run
// unchanged, with the RPC transport (connect over HTTP) cut out.
func VerifLoopbackPool(addr string, impl v1connect.ClusterServiceClient) *ClientPool {
	var counter uint64
	return &ClientPool{
		clients:  map[string][]*Client{addr: {{client: impl, rpcTimeout: gotime.Hour}}},
		counters: map[string]*uint64{addr: &counter},
		poolSize: 1,
	}
}
