//go:build verif

//verif:pkg pkg/document

package document

import (
	"errors"
	"fmt"
	"strings"

	"github.com/yorkie-team/yorkie/internal/zzvsym"
	"github.com/yorkie-team/yorkie/pkg/document/json"
	"github.com/yorkie-team/yorkie/pkg/document/presence"
)

var errRebuild = errors.New("rebuild")

// vModel is the plain sequential reference model of C07.
type vModel struct {
	obj map[string]string // member -> JSON
	arr []int
	txt string
	cnt int32
}

func vNewModel() *vModel {
	return &vModel{obj: map[string]string{"a": "1", "b": "2"}, arr: []int{1, 2, 3}, txt: "abcd"}
}

func (m *vModel) apply(op vOp) {
	switch op.typ {
	case vTObject:
		switch op.k {
		case 0:
			m.obj["a"] = fmt.Sprint(op.val)
		case 1:
			delete(m.obj, "a")
		case 2:
			m.obj["c"] = fmt.Sprint(op.val)
		case 3:
			m.obj["a"] = fmt.Sprintf(`{"n":%d}`, op.val)
		}
	case vTArray:
		switch op.k {
		case 0:
			m.arr = append(m.arr[:op.i+1:op.i+1], append([]int{op.val}, m.arr[op.i+1:]...)...)
		case 1:
			m.arr = append(m.arr[:op.i:op.i], m.arr[op.i+1:]...)
		case 2: // move the element at index j right after the element at index i
			prev, target := op.i, op.j
			v := m.arr[target]
			rest := append(m.arr[:target:target], m.arr[target+1:]...)
			if target < prev {
				prev--
			}
			m.arr = append(rest[:prev+1:prev+1], append([]int{v}, rest[prev+1:]...)...)
		case 3:
			m.arr[op.i] = op.val
		case 4:
			m.arr = append(m.arr, op.val)
		case 5:
			v := m.arr[op.i]
			rest := append(m.arr[:op.i:op.i], m.arr[op.i+1:]...)
			m.arr = append([]int{v}, rest...)
		case 6: // move the element at index j right before the element at index i
			next, target := op.i, op.j
			v := m.arr[target]
			rest := append(m.arr[:target:target], m.arr[target+1:]...)
			if target < next {
				next--
			}
			m.arr = append(rest[:next:next], append([]int{v}, rest[next:]...)...)
		case 7:
			v := m.arr[op.i]
			rest := append(m.arr[:op.i:op.i], m.arr[op.i+1:]...)
			m.arr = append(rest, v)
		}
	case vTText:
		switch op.k {
		case 0:
			m.txt = m.txt[:op.i] + string(rune('A'+op.val%26)) + m.txt[op.j:]
		case 1:
			m.txt = m.txt[:op.i] + m.txt[op.j:]
		}
	case vTCounter:
		m.cnt += int32(op.val)
	}
}

func (m *vModel) marshal(typ int) string {
	switch typ {
	case vTObject:
		var parts []string
		for _, k := range []string{"a", "b", "c"} {
			if v, ok := m.obj[k]; ok {
				parts = append(parts, fmt.Sprintf(`"%s":%s`, k, v))
			}
		}
		return `{"o":{` + strings.Join(parts, ",") + `}}`
	case vTArray:
		parts := make([]string, len(m.arr))
		for i, v := range m.arr {
			parts[i] = fmt.Sprint(v)
		}
		return `{"arr":[` + strings.Join(parts, ",") + `]}`
	case vTCounter:
		return fmt.Sprintf(`{"cnt":%d}`, m.cnt)
	}
	return ""
}

// VerifR7LocalModel: on one replica every editing call behaves like the
// plain sequential data type, also after remote changes and garbage
// collection left tombstones, split nodes and dead array slots behind.
func VerifR7LocalModel() {
	a, b := vReplica("actA"), vReplica("actB")
	s := vNewSrv()
	typ := zzvsym.IntRange("type", 0, vTCounter) // object, array, text, counter
	vBase(a, typ)
	s.sync(0, a)
	s.sync(1, b)
	s.sync(0, a)
	m := vNewModel()
	n := 2 + zzvsym.Tier()
	vSmallAlphabet = n > 2
	check := func(tag string) {
		switch typ {
		case vTText:
			txt := a.Root().GetText("txt")
			zzvsym.Assert(txt.String() == m.txt, tag+"-text-equals-spliced-string")
			zzvsym.Assert(txt.CheckWeight(), tag+"-text-weights-consistent")
		case vTArray:
			arr := a.Root().GetArray("arr")
			zzvsym.Assert(arr.Len() == len(m.arr), tag+"-array-len")
			zzvsym.Assert(a.Marshal() == m.marshal(typ), tag+"-array-equals-slice-model")
			for i := range m.arr {
				e := arr.Get(i)
				zzvsym.Assert(e != nil && e.Marshal() == fmt.Sprint(m.arr[i]), tag+"-array-get-by-index")
			}
			zzvsym.Assert(arr.Get(len(m.arr)) == nil, tag+"-array-get-out-of-range-is-nil")
		default:
			zzvsym.Assert(a.Marshal() == m.marshal(typ), tag+"-equals-model")
		}
		vCheckClone(a, tag)
	}
	for i := 0; i < n; i++ {
		who := 0
		if i == 0 {
			// the first edit may come from the peer: its tombstones reach A by
			// a remote change and are purged by the next sync's GC
			who = zzvsym.IntRange("firstBy", 0, 1)
		}
		if who == 0 {
			op := vEdit(a, vName("e", i), typ, 10+i)
			m.apply(op)
		} else {
			op := vEdit(b, vName("e", i), typ, 10+i)
			m.apply(op)
			s.sync(1, b)
			s.sync(0, a)
		}
		check(vName("step", i))
		switch zzvsym.IntRange(vName("then", i), 0, 2) {
		case 1: // sync: the response vector lets A purge what it can
			s.sync(0, a)
			s.sync(1, b)
			s.sync(0, a)
			check(vName("aftergc", i))
		case 2: // a failing update drops the working copy: the structures are rebuilt element by element
			_ = a.Update(func(root *json.Object, p *presence.Presence) error { return errRebuild })
			check(vName("afterrebuild", i))
		}
	}
	zzvsym.Reach("model-compared")
	zzvsym.Observe(a.Marshal())
}
