//go:build verif

//verif:pkg pkg/document

package document

import (
	gotime "time"

	"github.com/yorkie-team/yorkie/internal/zzvsym"
	"github.com/yorkie-team/yorkie/pkg/document/change"
	"github.com/yorkie-team/yorkie/pkg/document/crdt"
	"github.com/yorkie-team/yorkie/pkg/document/json"
	"github.com/yorkie-team/yorkie/pkg/document/presence"
)

const vNumElems = 15

// vPutElem creates one element of kind e directly below an object (arr ==
// nil) or as an array element. Numeric payloads are symbolic.
func vPutElem(obj *json.Object, arr *json.Array, e int) {
	i32 := int(zzvsym.Int32("i32"))
	i64 := zzvsym.Int64("i64")
	switch e {
	case 0:
		if arr != nil {
			arr.AddNull()
		} else {
			obj.SetNull("k")
		}
	case 1:
		b := zzvsym.Bool("b")
		if arr != nil {
			arr.AddBool(b)
		} else {
			obj.SetBool("k", b)
		}
	case 2:
		if arr != nil {
			arr.AddInteger(i32)
		} else {
			obj.SetInteger("k", i32)
		}
	case 3:
		if arr != nil {
			arr.AddLong(i64)
		} else {
			obj.SetLong("k", i64)
		}
	case 4:
		if arr != nil {
			arr.AddDouble(-2.75)
		} else {
			obj.SetDouble("k", -2.75)
		}
	case 5:
		if arr != nil {
			arr.AddString("q\"\\\n")
		} else {
			obj.SetString("k", "q\"\\\n")
		}
	case 6:
		if arr != nil {
			arr.AddBytes([]byte{0, 255, 7})
		} else {
			obj.SetBytes("k", []byte{0, 255, 7})
		}
	case 7:
		d := gotime.UnixMilli(1700000000123).UTC()
		if arr != nil {
			arr.AddDate(d)
		} else {
			obj.SetDate("k", d)
		}
	case 8, 9, 10:
		var c *json.Counter
		switch {
		case e == 8 && arr != nil:
			c = arr.AddNewCounter(crdt.IntegerCnt, i32)
		case e == 8:
			c = obj.SetNewCounter("k", i32)
		case e == 9 && arr != nil:
			c = arr.AddNewCounter(crdt.LongCnt, i64)
		case e == 9:
			c = obj.SetNewCounter("k", i64)
		case arr != nil:
			c = arr.AddNewCounter(crdt.IntegerDedupCnt, 0)
		default:
			c = obj.SetNewDedupCounter("k")
		}
		if e == 10 {
			for u := zzvsym.IntRange("adds", 0, 3); u > 0; u-- {
				c.Add([]string{"u1", "u2", "u1"}[u-1])
			}
		} else if zzvsym.Bool("inc") {
			c.Increase(int(zzvsym.Int32("delta")))
		}
	case 11:
		var t *json.Text
		if arr != nil {
			t = arr.AddNewText()
		} else {
			t = obj.SetNewText("k")
		}
		// a character outside the Basic Multilingual Plane (two UTF-16 units)
		// in a run that is not the last: "a😀cd", indices a=0, emoji=1..2, c=3, d=4
		t.Edit(0, 0, "a\U0001F600cd")
		if zzvsym.Bool("textDeletes") {
			t.Edit(3, 4, "")
		}
		t.Style(0, 3, map[string]string{"b": "1"})
		// values as SDKs store them: JSON-quoted strings, backslashes, empty
		t.Style(1, 4, map[string]string{"color": "\"red\"", "path": "C:\\a", "e": ""})
	case 12:
		n := json.TreeNode{Type: "r", Children: []json.TreeNode{
			{Type: "p", Attributes: map[string]string{"w": "1", "color": "\"red\"", "path": "C:\\a", "e": ""}, Children: []json.TreeNode{{Type: "text", Value: "a\"b"}}},
			{Type: "p"},
		}}
		if arr != nil {
			arr.AddNewTree(n)
		} else {
			obj.SetNewTree("k", n)
		}
	case 13:
		if arr != nil {
			arr.AddNewObject()
		} else {
			obj.SetNewObject("k")
		}
	case 14:
		if arr != nil {
			arr.AddNewArray()
		} else {
			obj.SetNewArray("k")
		}
	}
}

// VerifR8YSONPositions: every element kind in every container position
// (object member, array element, object inside an array, array inside an
// array) survives the compaction round trip with its full state.
func VerifR8YSONPositions() {
	a := vReplica("actA")
	s := vNewSrv()
	e := zzvsym.IntRange("elem", 0, vNumElems-1)
	pos := zzvsym.IntRange("pos", 0, 3)
	err := a.Update(func(root *json.Object, p *presence.Presence) error {
		switch pos {
		case 0:
			vPutElem(root, nil, e)
		case 1:
			vPutElem(nil, root.SetNewArray("arr").AddInteger(1), e)
		case 2:
			vPutElem(root.SetNewArray("arr").AddNewObject(), nil, e)
		case 3:
			vPutElem(nil, root.SetNewArray("arr").AddNewArray(), e)
		}
		return nil
	})
	zzvsym.Assert(err == nil, "build-no-error")
	s.sync(0, a)
	doc := s.vServerDoc(nil, 0, len(s.log), zzvsym.Bool("serverGC"))
	zzvsym.Assert(doc.Marshal() == a.Marshal(), "server-document-equals-client")
	pack, ok := vCompact(doc)
	zzvsym.Reach("compacted")
	if ok {
		c := vReplica("actC")
		cs := vWire(pack.Changes)
		err := c.ApplyChangePack(change.NewPack("doc", change.NewCheckpoint(int64(len(cs)), 0), cs, nil, nil))
		zzvsym.Assert(err == nil, "fresh-attach-after-compaction-no-error")
		zzvsym.Assert(c.Marshal() == a.Marshal(), "fresh-attach-after-compaction-equals-content-before")
		vCheckClone(c, "fresh-attach")
	}
	zzvsym.Observe(a.Marshal())
}
