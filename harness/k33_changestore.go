//go:build verif

//verif:pkg server/backend/database/mongo

package mongo

import (
	"fmt"

	"github.com/yorkie-team/yorkie/internal/zzvsym"
	"github.com/yorkie-team/yorkie/server/backend/database"
)

// VerifK33ChangeStore: answers served from the cached change ranges equal
// the answers of the underlying store (a ground-truth table with holes where
// presence-only changes live elsewhere), for every sequence of range
// fetches and pushes; the fetcher is never asked for a covered sequence.
func VerifK33ChangeStore() {
	const maxSeq = 6
	// ground truth: rows[i] exists iff sequence i is an operation change
	var rows [maxSeq + 1]*database.ChangeInfo
	head := zzvsym.IntRange("head", 0, 4)
	if zzvsym.Tier() > 0 {
		for i := 1; i <= maxSeq; i++ {
			if zzvsym.Bool(fmt.Sprintf("isop%d", i)) {
				rows[i] = &database.ChangeInfo{ServerSeq: int64(i), ClientSeq: uint32(i)}
			}
		}
	} else {
		// quick: no hole, one hole at any sequence, or every second one
		hole := zzvsym.IntRange("hole", 0, maxSeq+1)
		for i := 1; i <= maxSeq; i++ {
			if i != hole && (hole <= maxSeq || i%2 == 0) {
				rows[i] = &database.ChangeInfo{ServerSeq: int64(i), ClientSeq: uint32(i)}
			}
		}
	}
	s := NewChangeStore()
	covered := map[int64]bool{}
	fetcher := func(from, to int64) ([]*database.ChangeInfo, error) {
		zzvsym.Assert(from <= to, "fetch-range-well-formed")
		var out []*database.ChangeInfo
		for q := from; q <= to; q++ {
			zzvsym.Assert(!covered[q], "fetcher-never-asked-for-covered-sequence")
			covered[q] = true
			if q >= 1 && q <= int64(head) && rows[q] != nil {
				out = append(out, rows[q])
			}
		}
		return out, nil
	}
	ncalls := 3
	for c := 0; c < ncalls; c++ {
		kind := zzvsym.IntRange(fmt.Sprintf("call%d", c), 0, 1)
		if kind == 1 && head < maxSeq {
			// a push of n changes: CreateChangeInfos stores the operation
			// changes and marks the whole pushed range as known
			n := zzvsym.IntRange(fmt.Sprintf("push%d", c), 1, maxSeq-head)
			var ops []*database.ChangeInfo
			for q := head + 1; q <= head+n; q++ {
				if rows[q] != nil {
					ops = append(ops, rows[q])
				}
				covered[int64(q)] = true
			}
			s.ReplaceOrInsert(ops)
			s.ExpandRange(ChangeRange{From: int64(head + 1), To: int64(head + n)})
			head += n
			continue
		}
		if head == 0 {
			continue
		}
		from := zzvsym.IntRange(fmt.Sprintf("from%d", c), 1, head)
		to := zzvsym.IntRange(fmt.Sprintf("to%d", c), from, head)
		err := s.EnsureChanges(int64(from), int64(to), fetcher)
		zzvsym.Assert(err == nil, "ensure-no-error")
		got := s.ChangesInRange(int64(from), int64(to))
		k := 0
		for q := from; q <= to; q++ {
			if rows[q] == nil {
				continue
			}
			zzvsym.Assert(k < len(got), "cached-range-misses-a-stored-change")
			if k < len(got) {
				zzvsym.Assert(got[k] == rows[q], "cached-range-returns-stored-changes-in-order")
			}
			k++
		}
		zzvsym.Assert(len(got) == k, "cached-range-returns-nothing-else")
	}
	zzvsym.Reach("queried")
	// the bookkeeping stays sorted, disjoint and non-adjacent
	for i := 1; i < len(s.ranges); i++ {
		zzvsym.Assert(s.ranges[i-1].To+1 < s.ranges[i].From, "ranges-sorted-disjoint-non-adjacent")
	}
	for _, r := range s.ranges {
		zzvsym.Assert(r.From <= r.To, "ranges-well-formed")
	}
	zzvsym.Observe(len(s.ranges), head)
}

// VerifK33MergeRanges: mergeAdjacentRanges with symbolic bounds returns a
// sorted, disjoint, non-adjacent list covering exactly the same sequences.
func VerifK33MergeRanges() {
	n := zzvsym.IntRange("n", 1, 3)
	in := make([]ChangeRange, n)
	for i := range in {
		f := zzvsym.Int64(fmt.Sprintf("f%d", i))
		t := zzvsym.Int64(fmt.Sprintf("t%d", i))
		zzvsym.Assume(f >= 1)
		zzvsym.Assume(f <= t)
		zzvsym.Assume(t < 1<<62) // callers pass sequence numbers <= the log head
		in[i] = ChangeRange{From: f, To: t}
	}
	orig := append([]ChangeRange{}, in...)
	out := mergeAdjacentRanges(in)
	zzvsym.Reach("merged")
	for i := 1; i < len(out); i++ {
		zzvsym.Assert(out[i-1].To+1 < out[i].From, "merged-sorted-disjoint-non-adjacent")
	}
	// same coverage, checked at a symbolic probe point
	p := zzvsym.Int64("probe")
	inIn, inOut := false, false
	for _, r := range orig {
		if r.From <= p && p <= r.To {
			inIn = true
		}
	}
	for _, r := range out {
		if r.From <= p && p <= r.To {
			inOut = true
		}
	}
	zzvsym.Assert(inIn == inOut, "merged-covers-same-sequences")
	zzvsym.Observe(len(out))
}
