//go:build verif

//verif:pkg pkg/document/crdt

package crdt

import (
	"fmt"

	"github.com/yorkie-team/yorkie/internal/zzvsym"
	"github.com/yorkie-team/yorkie/pkg/document/time"
)

// VerifK5TextStyleCommute: text attributes are last-writer-wins registers
// per character: three concurrent Style operations on overlapping ranges of
// one text (values chosen from a two-element set, so the same value may be
// written twice) leave the same attributes in every delivery order, for all
// ticket orders.
func VerifK5TextStyleCommute() {
	tc := time.NewTicket(1, 0, time.InitialActorID) // creation of the text
	t0 := time.NewTicket(2, 0, time.InitialActorID) // insertion of "abcd"
	n := 3
	// one fixed family of mutually overlapping ranges (the ticket order and
	// the values are what the claim quantifies over)
	ranges := [][2]int{{0, 2}, {0, 4}, {1, 3}}
	type styleOp struct {
		from, to int
		val      string
		tk       *time.Ticket
	}
	ops := make([]styleOp, n)
	var ts []*time.Ticket
	for i := range ops {
		r := ranges[i]
		lam := zzvsym.Int64(fmt.Sprintf("s%d_l", i))
		zzvsym.Assume(lam >= 0)
		tk := time.NewTicket(lam, 0, time.ActorID(zzvsym.Actor(fmt.Sprintf("s%d_a", i))))
		ops[i] = styleOp{from: r[0], to: r[1], val: []string{"x", "y"}[zzvsym.IntRange(fmt.Sprintf("val%d", i), 0, 1)], tk: tk}
		zzvsym.Assume(ops[i].tk.After(t0)) // the text existed when it was styled
		ts = append(ts, ops[i].tk)
	}
	vDistinctTickets(ts...)
	build := func() *Text {
		txt := NewText(NewRGATreeSplit(InitialTextNode()), tc)
		from, to, err := txt.CreateRange(0, 0)
		zzvsym.Assert(err == nil, "create-range-no-error")
		_, _, _, _, _, err = txt.Edit(from, to, "abcd", nil, t0, nil)
		zzvsym.Assert(err == nil, "base-edit-no-error")
		return txt
	}
	// positions are identities (node id + offset): computed once on the base state
	ref := build()
	type posPair struct{ from, to *RGATreeSplitNodePos }
	pos := make([]posPair, n)
	for i, op := range ops {
		f, t, err := ref.CreateRange(op.from, op.to)
		zzvsym.Assert(err == nil, "create-range-no-error")
		pos[i] = posPair{f, t}
	}
	var first string
	for pi, perm := range [][]int{{0, 1, 2}, {0, 2, 1}, {1, 0, 2}, {1, 2, 0}, {2, 0, 1}, {2, 1, 0}} {
		txt := build()
		for _, i := range perm {
			_, _, _, err := txt.Style(pos[i].from, pos[i].to, map[string]string{"b": ops[i].val}, ops[i].tk, nil)
			zzvsym.Assert(err == nil, "style-no-error")
		}
		m := txt.Marshal()
		if pi == 0 {
			first = m
			continue
		}
		zzvsym.Assert(m == first, "style-order-independent")
	}
	zzvsym.Reach("compared")
	zzvsym.Observe(first)
}
