//go:build verif

//verif:pkg pkg/document

package document

import (
	"google.golang.org/protobuf/proto"

	"github.com/yorkie-team/yorkie/api/converter"
	api "github.com/yorkie-team/yorkie/api/yorkie/v1"
	"github.com/yorkie-team/yorkie/internal/zzvsym"
	"github.com/yorkie-team/yorkie/pkg/document/change"
	"github.com/yorkie-team/yorkie/pkg/document/json"
	"github.com/yorkie-team/yorkie/pkg/document/presence"
)

// vSameStructure: two replicas that executed the same changes hold the same
// structure, field by field (compared on their encoded snapshots).
func vSameStructure(x, y *InternalDocument, tag string) {
	bx, err1 := converter.SnapshotToBytes(x.RootObject(), x.AllPresences())
	by, err2 := converter.SnapshotToBytes(y.RootObject(), y.AllPresences())
	zzvsym.Assert(err1 == nil && err2 == nil, tag+"-snapshot-encode-no-error")
	var sx, sy api.Snapshot
	zzvsym.Assert(proto.Unmarshal(bx, &sx) == nil && proto.Unmarshal(by, &sy) == nil, tag+"-snapshot-parse-no-error")
	diff := vElemEq(sx.Root, sy.Root)
	zzvsym.Assert(diff == "", tag+"-author-and-receiver-hold-the-same-structure")
	if diff != "" {
		zzvsym.Assert(false, tag+"-receiver-differs-in-"+diff)
	}
}

// VerifR15WireStructure: every change the editing API can produce --
// content operations of every kind incl. tree splits, merges, styles and
// style removals, presence put and clear, changes with a message, changes
// carrying both -- means to its receiver exactly what it meant to its author:
// after the change pack went through ToChangePack / FromChangePack the
// receiver shows the same content and presences and holds the same structure
// (tickets, tombstones, split links, attribute tickets) as the author.
func VerifR15WireStructure() {
	a, b := vReplica("actA"), vReplica("actB")
	zzvsym.DistinctActors("actA", "actB")
	typ := zzvsym.IntRange("type", 0, vNumTypes) // vNumTypes: deep tree
	send := func() {
		pbPack, err := converter.ToChangePack(a.CreateChangePack())
		zzvsym.Assert(err == nil, "pack-encode-no-error")
		pack, err := converter.FromChangePack(pbPack)
		zzvsym.Assert(err == nil, "pack-decode-no-error")
		if err != nil {
			return
		}
		n := len(pack.Changes)
		// re-address the pack as a server response: same changes, acknowledging nothing of B
		resp := change.NewPack(pack.DocumentKey, change.NewCheckpoint(b.Checkpoint().ServerSeq+int64(n), b.Checkpoint().ClientSeq), pack.Changes, nil, nil)
		zzvsym.Assert(b.ApplyChangePack(resp) == nil, "receiver-applies-the-pack")
		// the author's changes are acknowledged
		ack := change.NewPack(pack.DocumentKey, change.NewCheckpoint(a.Checkpoint().ServerSeq+int64(n), pack.Checkpoint.ClientSeq), nil, nil, nil)
		zzvsym.Assert(a.ApplyChangePack(ack) == nil, "author-applies-the-acknowledgement")
	}
	err := a.Update(func(root *json.Object, p *presence.Presence) error {
		p.Initialize(presence.Data{"color": "red", "empty": ""})
		return nil
	}, "attach")
	zzvsym.Assert(err == nil, "attach-update-no-error")
	if typ < vNumTypes {
		vBase(a, typ)
	} else {
		err := a.Update(func(root *json.Object, p *presence.Presence) error {
			root.SetNewTree("tree", json.TreeNode{Type: "r", Children: []json.TreeNode{
				{Type: "p", Attributes: map[string]string{"w": "1"}, Children: []json.TreeNode{{Type: "text", Value: "abcdef"}}},
				{Type: "p", Children: []json.TreeNode{{Type: "text", Value: "gh"}}},
			}})
			return nil
		})
		zzvsym.Assert(err == nil, "base-update-no-error")
	}
	send()
	vSkew(a, "skewA")
	steps := 2 + zzvsym.Tier()
	for i := 0; i < steps; i++ {
		// a presence action rides along with, or replaces, the content edit
		pres := zzvsym.IntRange(vName("presence", i), 0, 3) // none, set, clear, presence only
		var op vOp
		k := 0
		if typ < vNumTypes {
			op = vPick(a, vName("e", i), typ, 10+i)
		} else {
			k = zzvsym.IntRange(vName("k", i), 0, 4)
		}
		at := 2 + i
		err := a.Update(func(root *json.Object, p *presence.Presence) error {
			switch pres {
			case 1, 3:
				p.Set("cursor", vName("c", i))
			case 2:
				p.Clear()
			}
			if pres == 3 {
				return nil
			}
			if typ < vNumTypes {
				vApplyIn(root, op)
				return nil
			}
			tr := root.GetTree("tree")
			switch k {
			case 0:
				tr.Edit(at, at, nil, 1)
			case 1:
				sizes, ok := vTreeParas(tr.ToXML())
				zzvsym.Assume(ok && len(sizes) >= 2)
				tr.Edit(sizes[0]-1, sizes[0]+1, nil, 0)
			case 2:
				tr.Style(0, 1, map[string]string{"w": "2", "q": "\"x\""})
			case 3:
				tr.RemoveStyle(0, 1, []string{"w"})
			case 4:
				tr.EditBulk(1, 2, []*json.TreeNode{{Type: "text", Value: "X"}, {Type: "text", Value: "Y"}}, 0)
			}
			return nil
		}, vName("msg", i))
		zzvsym.Assert(err == nil, "edit-accepted")
		if zzvsym.IntRange(vName("send", i), 0, 1) == 1 || i == steps-1 {
			send()
		}
	}
	zzvsym.Reach("sent")
	zzvsym.Assert(a.Marshal() == b.Marshal(), "receiver-shows-the-authors-content")
	zzvsym.Assert(vPresenceOf(a, a.ActorID()) == vPresenceOf(b, a.ActorID()), "receiver-shows-the-authors-presence")
	vSameStructure(a.InternalDocument(), b.InternalDocument(), "wire")
	vCheckClone(b, "receiver")
	zzvsym.Observe(a.Marshal(), vPresenceOf(b, a.ActorID()))
}
