//go:build verif

//verif:pkg server/documents

package documents

import (
	"context"

	"github.com/yorkie-team/yorkie/api/converter"
	"github.com/yorkie-team/yorkie/api/types"
	"github.com/yorkie-team/yorkie/internal/zzvsym"
	"github.com/yorkie-team/yorkie/pkg/document"
	"github.com/yorkie-team/yorkie/pkg/key"
	"github.com/yorkie-team/yorkie/server/backend"
	"github.com/yorkie-team/yorkie/server/backend/database"
	"github.com/yorkie-team/yorkie/server/backend/database/memory"
	"github.com/yorkie-team/yorkie/server/clients"
	"github.com/yorkie-team/yorkie/server/packs"
)

// Exported face of the peer library for harnesses in packages that import
// this one (server/rpc).

type VerifPeer = vPeer

func VerifNewServer() (*backend.Backend, *memory.DB) { return vNewServer() }

func VerifAttachPeer(ctx context.Context, be *backend.Backend, project *types.Project, clientKey string, docKey key.Key) *VerifPeer {
	return vAttachPeer(ctx, be, project, clientKey, docKey)
}

func VerifCheckLog(ctx context.Context, be *backend.Backend, refKey types.DocRefKey) {
	vCheckLog(ctx, be, refKey)
}

func (p *vPeer) Doc() *document.Document    { return p.doc }
func (p *vPeer) Info() *database.ClientInfo { return p.info }
func (p *vPeer) RefKey() types.DocRefKey    { return p.refKey }
func (p *vPeer) Failed() bool               { return p.failed }
func (p *vPeer) Sync(ctx context.Context)   { p.pushPull(ctx, document.StatusAttached, true) }
func (p *vPeer) Detach(ctx context.Context) { p.pushPull(ctx, document.StatusDetached, true) }

// SyncLosingResponse sends the request; the server processes it, the
// response never reaches the client.
func (p *vPeer) SyncLosingResponse(ctx context.Context) {
	info, err := clients.FindActiveClientInfo(ctx, p.be, p.info.RefKey())
	zzvsym.Assert(err == nil, "find-client-no-error")
	p.info = info
	_, err = packs.PushPull(ctx, p.be, p.project, p.info, p.refKey, vWirePack(p.doc.CreateChangePack()),
		packs.PushPullOptions{Mode: types.SyncModePushPull, Status: document.StatusAttached})
	zzvsym.Assert(err == nil, "pushpull-no-error")
}

// VerifAttachAnother attaches one more document with the client of p.
func VerifAttachAnother(ctx context.Context, p *VerifPeer, docKey key.Key) *VerifPeer {
	info, err := clients.FindActiveClientInfo(ctx, p.be, p.info.RefKey())
	zzvsym.Assert(err == nil, "find-client-no-error")
	actor, err := info.ID.ToActorID()
	zzvsym.Assert(err == nil, "client-id-is-an-actor-id")
	doc := document.New(docKey)
	doc.SetActor(actor)
	docInfo, err := FindOrCreateDocInfo(ctx, p.be, info, docKey, false)
	zzvsym.Assert(err == nil, "find-or-create-doc-no-error")
	info, err = clients.AttachDocument(ctx, p.be, info, docInfo, false)
	zzvsym.Assert(err == nil, "attach-no-error")
	q := &vPeer{be: p.be, project: p.project, info: info, doc: doc, refKey: docInfo.RefKey()}
	q.pushPull(ctx, document.StatusAttached, false)
	return q
}

// Remove removes the document, as the RemoveDocument handler does.
func (p *vPeer) Remove(ctx context.Context) {
	info, err := clients.FindActiveClientInfo(ctx, p.be, p.info.RefKey())
	zzvsym.Assert(err == nil, "find-client-no-error")
	p.info = info
	pack := vWirePack(p.doc.CreateChangePack())
	pack.IsRemoved = true
	res, err := packs.PushPull(ctx, p.be, p.project, p.info, p.refKey, pack,
		packs.PushPullOptions{Mode: types.SyncModePushPull, Status: document.StatusRemoved})
	zzvsym.Assert(err == nil, "remove-no-error")
	if err != nil {
		return
	}
	pb, err := res.ToPBChangePack()
	zzvsym.Assert(err == nil, "response-encode-no-error")
	back, err := converter.FromChangePack(pb)
	zzvsym.Assert(err == nil, "response-decode-no-error")
	zzvsym.Assert(back.IsRemoved, "remove-response-carries-the-removed-flag")
	zzvsym.Assert(p.doc.ApplyChangePack(back) == nil, "apply-remove-response-no-error")
}
