//go:build verif

//verif:pkg pkg/document

package document

import (
	"github.com/yorkie-team/yorkie/api/converter"
	"github.com/yorkie-team/yorkie/internal/zzvsym"
	"github.com/yorkie-team/yorkie/pkg/document/change"
	"github.com/yorkie-team/yorkie/pkg/document/time"
)

// vServerDoc rebuilds the server's document by replaying log[from:to] on top
// of base (nil: from scratch), exactly as BuildInternalDocForServerSeq does.
func (s *vSrv) vServerDoc(base *InternalDocument, from, to int, gc bool) *InternalDocument {
	doc := base
	if doc == nil {
		doc = NewInternalDocument("doc")
	}
	pack := change.NewPack("doc", change.InitialCheckpoint.NextServerSeq(int64(to)), vWire(s.log[from:to]), nil, nil)
	if err := doc.ApplyChangePack(pack, !gc); err != nil {
		zzvsym.Assert(false, "server-rebuild-no-error")
	}
	if gc {
		vecs := []time.VersionVector{doc.VersionVector()}
		for _, k := range []int{0, 1, 2, 3} {
			if v, ok := s.rows[k]; ok {
				vecs = append(vecs, v)
			}
		}
		if _, err := doc.GarbageCollect(time.MinVersionVector(vecs...)); err != nil {
			zzvsym.Assert(false, "server-gc-no-error")
		}
	}
	return doc
}

// syncSnapshot answers replica idx with a snapshot pull (pullSnapshot): the
// pushed changes are stored, the document is rebuilt at the pre-push head,
// the request's changes are applied on top and the bytes are returned.
func (s *vSrv) syncSnapshot(idx int, d *Document, gc bool) {
	req := d.CreateChangePack()
	reqVV := d.VersionVector().DeepCopy()
	initial := len(s.log)
	pushed := vWire(req.Changes)
	for _, c := range pushed {
		if c.ClientSeq() <= s.clientSeq[idx] {
			continue
		}
		s.log = append(s.log, c)
		s.clientSeq[idx] = c.ClientSeq()
	}
	s.rows[idx] = reqVV
	doc := s.vServerDoc(nil, 0, initial, false)
	if len(pushed) > 0 {
		p := change.NewPack("doc", doc.Checkpoint().NextServerSeq(int64(len(s.log))), vWire(req.Changes), nil, nil)
		if err := doc.ApplyChangePack(p, !gc); err != nil {
			zzvsym.Assert(false, "snapshot-apply-request-no-error")
		}
	}
	if gc {
		vecs := []time.VersionVector{doc.VersionVector()}
		for _, k := range []int{0, 1, 2, 3} {
			if v, ok := s.rows[k]; ok {
				vecs = append(vecs, v)
			}
		}
		if _, err := doc.GarbageCollect(time.MinVersionVector(vecs...)); err != nil {
			zzvsym.Assert(false, "snapshot-gc-no-error")
		}
	}
	bytes, err := converter.SnapshotToBytes(doc.RootObject(), doc.AllPresences())
	zzvsym.Assert(err == nil, "snapshot-encode-no-error")
	pack := change.NewPack("doc", change.NewCheckpoint(int64(len(s.log)), s.clientSeq[idx]), nil, doc.VersionVector(), bytes)
	if err := d.ApplyChangePack(pack); err != nil {
		zzvsym.Assert(false, "snapshot-apply-no-error")
	}
}

// VerifR3SnapshotVsReplay: a replica fed by a server-built snapshot shows
// the same content as the replicas that applied every change, and stays
// identical to them under later edits made on top of it.
func VerifR3SnapshotVsReplay() {
	a, b := vReplica("actA"), vReplica("actB")
	zzvsym.DistinctActors("actA", "actB")
	s := vNewSrv()
	typ := zzvsym.IntRange("type", 0, vNumTypes-1)
	vBase(a, typ)
	s.sync(0, a)
	s.sync(1, b)
	s.sync(0, a)
	// history before the snapshot. mode 0: A edits twice, nothing after the
	// snapshot; mode 1: A edits once, the snapshot-fed replica edits after;
	// mode 2 (thorough, reduced index alphabet): A twice, B once
	// concurrently, then S and A concurrently after the snapshot.
	// mode 3: A and B edit once concurrently, so that the log holds a
	// change made without knowledge of the change before it: a snapshot cut
	// between them is followed by the replay of a concurrent change.
	// mode 4 (arrays): A edits twice (e.g. move, then delete the moved
	// element), B once concurrently: the snapshot cut after A's edits holds
	// dead slots that B's change is anchored on.
	mode := zzvsym.IntRange("mode", 0, 4)
	zzvsym.Assume((mode != 2 && mode != 0) || zzvsym.Tier() > 0) // quick: modes 1, 3, 4
	zzvsym.Assume(mode != 4 || typ == vTArray)
	vSmallAlphabet = mode == 2 || mode == 4 || zzvsym.Tier() == 0 // quick: reduced index alphabets
	if mode != 1 || zzvsym.Tier() > 0 {
		// concurrent edits: their tickets are compared, so the clocks are symbolic
		vSkew(a, "skewA")
		vSkew(b, "skewB")
	}
	a0 := vEdit(a, "a0", typ, 10)
	if mode == 4 {
		// the histories that leave dead slots behind: a move, then a delete /
		// another move / a set-by-index
		zzvsym.Assume(a0.k == 2 || a0.k >= 5)
		a1 := vEdit(a, "a1", typ, 11)
		zzvsym.Assume(a1.k >= 1 && a1.k <= 3)
		vEdit(b, "b0", typ, 20)
	} else if mode == 3 {
		vEdit(b, "b0", typ, 20)
	} else if mode != 1 {
		if zzvsym.IntRange("syncA0", 0, 1) == 1 {
			s.sync(0, a)
			s.sync(1, b)
		}
		vEdit(a, "a1", typ, 11)
	}
	if mode == 2 {
		vEdit(b, "b0", typ, 20)
	}
	s.sync(0, a)
	s.sync(1, b)
	s.sync(0, a)
	s.sync(1, b)
	vConverged("pre-snapshot", a, b)
	// late replica S attaches and is answered with a snapshot
	c := vReplica("actS")
	zzvsym.DistinctActors("actA", "actB", "actS")
	gc := zzvsym.IntRange("gcBeforeSnapshot", 0, 1) == 1
	s.syncSnapshot(2, c, gc)
	zzvsym.Reach("snapshot-applied")
	zzvsym.Assert(c.Marshal() == a.Marshal(), "snapshot-fed-equals-change-fed")
	vCheckClone(c, "after-snapshot")
	// server rebuild: snapshot at every position + replay of the rest == full replay
	full := s.vServerDoc(nil, 0, len(s.log), false)
	for p := 1; p < len(s.log); p++ {
		pre := s.vServerDoc(nil, 0, p, false)
		bytes, err := converter.SnapshotToBytes(pre.RootObject(), pre.AllPresences())
		zzvsym.Assert(err == nil, "rebuild-encode-no-error")
		from, err := NewInternalDocumentFromSnapshot("doc", int64(p), pre.Lamport(), pre.VersionVector(), bytes)
		zzvsym.Assert(err == nil, "rebuild-from-snapshot-no-error")
		if err == nil {
			re := s.vServerDoc(from, p, len(s.log), false)
			zzvsym.Assert(re.Marshal() == full.Marshal(), "snapshot-plus-replay-equals-full-replay")
		}
	}
	zzvsym.Assert(full.Marshal() == a.Marshal(), "server-rebuild-equals-clients")
	// later edits on top of the snapshot-fed replica, concurrent with a change-fed one
	if mode == 1 || mode == 2 {
		vEdit(c, "s0", typ, 30)
	}
	if mode == 2 {
		vSkew(c, "skewS")
		vEdit(a, "a2", typ, 12)
	}
	s.sync(2, c)
	s.sync(0, a)
	s.sync(1, b)
	s.sync(2, c)
	s.sync(0, a)
	zzvsym.Reach("quiescent")
	vConverged("post-snapshot", a, b, c)
	zzvsym.Observe(a.Marshal())
}
