//go:build verif

//verif:pkg pkg/document

package document

import (
	"fmt"
	"sort"
	"strings"

	"google.golang.org/protobuf/proto"

	"github.com/yorkie-team/yorkie/api/converter"
	api "github.com/yorkie-team/yorkie/api/yorkie/v1"
	"github.com/yorkie-team/yorkie/internal/zzvsym"
	"github.com/yorkie-team/yorkie/pkg/document/change"
	"github.com/yorkie-team/yorkie/pkg/document/time"
)

// vSrv is the harness server: one total order (the log), prefix delivery,
// exactly-once, no echo, and the minimum version vector computed by the real
// time.MinVersionVector over the request-time vectors of the attached
// clients -- the contract that the C04/C05/C06 harnesses check on the real
// server code (server/packs + memory DB).
type vSrv struct {
	log       []*change.Change
	rows      map[int]time.VersionVector // attached client -> last reported vector
	clientSeq map[int]uint32             // server-side stored clientSeq
	disableGC bool                       // respond without a version vector
	failed    bool
	// monitor for C06
	seenLamport map[string]bool
	delivered   map[int]int // replica -> length of the log prefix its last completed sync delivered
	applied     map[int]int // replica -> the same one sync earlier (see monitorCausal)
}

func vNewSrv() *vSrv {
	return &vSrv{rows: map[int]time.VersionVector{}, clientSeq: map[int]uint32{}, seenLamport: map[string]bool{},
		delivered: map[int]int{}, applied: map[int]int{}}
}

// vWire passes changes through the real wire converters, giving every
// receiver its own copy exactly as the RPC layer does.
func vWire(cs []*change.Change) []*change.Change {
	if len(cs) == 0 {
		return nil
	}
	pbs, err := converter.ToChanges(cs)
	if err != nil {
		zzvsym.Assert(false, "wire-encode-no-error")
		return nil
	}
	// the bytes cross the network: nothing of the sender's memory is shared
	// (ToChanges puts maps such as presence data into the message as they are)
	for i, pb := range pbs {
		bytes, err := proto.Marshal(pb)
		fresh := &api.Change{}
		if err != nil || proto.Unmarshal(bytes, fresh) != nil {
			zzvsym.Assert(false, "wire-serialise-no-error")
			return nil
		}
		pbs[i] = fresh
	}
	out, err := converter.FromChanges(pbs)
	if err != nil {
		zzvsym.Assert(false, "wire-decode-no-error")
		return nil
	}
	return out
}

// sync performs one PushPull of replica idx.
func (s *vSrv) sync(idx int, d *Document) { s.syncBegin(idx, d)() }

// syncBegin performs the request half of one PushPull (the pack is created,
// serialised and stored, the response is computed) and returns the response
// half (ApplyChangePack). client.pushPullChanges does not hold the document
// between the two, and Document is mutex-guarded for exactly that reason, so
// a local Update may run in between.
func (s *vSrv) syncBegin(idx int, d *Document) func() {
	req := d.CreateChangePack()
	reqVV := d.VersionVector().DeepCopy()
	initial := len(s.log)
	for _, c := range vWire(req.Changes) {
		if c.ClientSeq() <= s.clientSeq[idx] {
			continue
		}
		s.monitor(c)
		s.monitorCausal(idx, c)
		s.log = append(s.log, c)
		s.clientSeq[idx] = c.ClientSeq()
	}
	from := int(req.Checkpoint.ServerSeq)
	var pulled []*change.Change
	for i := from; i < initial; i++ {
		c := s.log[i]
		if c.ID().ActorID() == d.ActorID() {
			continue
		}
		pulled = append(pulled, c)
	}
	pulled = vWire(pulled)
	var minVV time.VersionVector
	if !s.disableGC {
		s.rows[idx] = reqVV
		vecs := []time.VersionVector{reqVV}
		for _, k := range []int{0, 1, 2, 3} {
			if v, ok := s.rows[k]; ok {
				vecs = append(vecs, v)
			}
		}
		minVV = time.MinVersionVector(vecs...)
	}
	cp := change.NewCheckpoint(int64(len(s.log)), s.clientSeq[idx])
	pack := change.NewPack(d.Key(), cp, pulled, minVV, nil)
	// whatever is pushed by the next request was made after this request was
	// sent, i.e. after the previous response had been applied
	s.applied[idx] = s.delivered[idx]
	return func() {
		if err := d.ApplyChangePack(pack); err != nil {
			s.failed = true
			zzvsym.Assert(false, "sync-no-error")
		}
		s.delivered[idx] = initial
	}
}

// monitorCausal checks the C06 clause "for every change d applied at the
// author before c was made, vv(c) >= vv(d) pointwise": c, pushed by replica
// idx, was made after the response of the sync before its previous one had
// been applied (a change may be made while a request is in flight, so the
// latest response is not counted).
func (s *vSrv) monitorCausal(idx int, c *change.Change) {
	id := c.ID()
	if !id.HasClocks() {
		return
	}
	for _, prev := range s.log[:s.applied[idx]] {
		p := prev.ID()
		if !p.HasClocks() {
			continue
		}
		for actor, l := range p.VersionVector() {
			zzvsym.Assert(id.VersionVector().VersionOf(actor) >= l, "c06-vector-dominates-applied-changes")
		}
	}
}

// monitor checks the C06 clauses on every change that enters the log.
func (s *vSrv) monitor(c *change.Change) {
	id := c.ID()
	if !id.HasClocks() {
		return
	}
	zzvsym.Assert(id.VersionVector().VersionOf(id.ActorID()) == id.Lamport(), "c06-own-entry-is-lamport")
	for _, prev := range s.log {
		p := prev.ID()
		if !p.HasClocks() {
			continue
		}
		if p.ActorID() == id.ActorID() {
			zzvsym.Assert(id.Lamport() > p.Lamport(), "c06-author-lamports-grow")
		}
		same := p.ActorID() == id.ActorID() && p.Lamport() == id.Lamport()
		zzvsym.Assert(!same, "c06-lamport-actor-unique")
		// causality: if the author had seen prev, the new clock dominates it
		if id.VersionVector().VersionOf(p.ActorID()) >= p.Lamport() {
			zzvsym.Assert(id.Lamport() > p.Lamport(), "c06-newer-than-seen")
		}
	}
}

func (s *vSrv) detach(idx int) { delete(s.rows, idx) }

var vActorNames []string

func init() {
	zzvsym.OnReset(func() {
		vActorNames = nil
		vSmallAlphabet = false
	})
}

// vReplica creates an attached replica with a symbolic actor id that is
// non-zero and distinct from every replica created before.
func vReplica(name string, opts ...Option) *Document {
	d := New("doc", opts...)
	d.SetActor(time.ActorID(zzvsym.Actor(name)))
	vActorNames = append(vActorNames, name)
	zzvsym.DistinctActors(vActorNames...)
	d.SetStatus(StatusAttached)
	// client.Attach records the attach-time GC participation on the document;
	// every replica here participates (it sends and merges version vectors),
	// whether or not it collects garbage locally (WithDisableGC)
	d.SetDisableGC(false)
	return d
}

// vSkew advances the replica's logical clock by a symbolic amount in
// [0, 2^40): it stands for that many earlier local changes that touched only
// an unrelated key (they commute with everything under test and only move
// clocks). Every later ticket of the replica is therefore symbolic and each
// cross-replica ticket comparison is decided by the solver.
func vSkew(d *Document, name string) {
	delta := zzvsym.Int64(name)
	zzvsym.Assume(delta >= 0)
	zzvsym.Assume(delta < 1<<40)
	id := d.doc.changeID
	vv := id.VersionVector().DeepCopy()
	l := id.Lamport() + delta
	vv.Set(id.ActorID(), l)
	d.doc.changeID = change.NewID(id.ClientSeq(), id.ServerSeq(), l, id.ActorID(), vv)
}

// vCheckClone asserts the C08 clause "the copy handed to users shows the
// same content as the authoritative document".
func vCheckClone(d *Document, tag string) {
	root := d.Root()
	zzvsym.Assert(root.Marshal() == d.Marshal(), tag+"-clone-equals-root")
	// C07: lengths and lookups by visible index agree with the visible content
	// (deleted content never influences them)
	if d.RootObject().Get("arr") != nil {
		arr := root.GetArray("arr")
		n := arr.Len()
		parts := make([]string, 0, n)
		for i := 0; i < n; i++ {
			e := arr.Get(i)
			zzvsym.Assert(e != nil, tag+"-array-get-within-len")
			if e != nil {
				parts = append(parts, e.Marshal())
			}
		}
		zzvsym.Assert(arr.Get(n) == nil, tag+"-array-get-at-len-is-nil")
		zzvsym.Assert("["+strings.Join(parts, ",")+"]" == arr.Marshal(), tag+"-array-len-and-get-agree-with-content")
	}
}

func vConverged(tag string, ds ...*Document) {
	for i := 1; i < len(ds); i++ {
		zzvsym.Assert(ds[0].Marshal() == ds[i].Marshal(), tag+"-replicas-converge")
	}
	for _, d := range ds {
		vCheckClone(d, tag)
	}
}

func vName(prefix string, i int) string { return fmt.Sprintf("%s%d", prefix, i) }

// vPresenceOf renders what replica d knows about actor id ("<none>" if absent).
func vPresenceOf(d *Document, id time.ActorID) string {
	data, ok := d.AllPresences()[id.String()]
	if !ok {
		return "<none>"
	}
	var parts []string
	for k, v := range data {
		parts = append(parts, k+"="+v)
	}
	sort.Strings(parts)
	return "{" + strings.Join(parts, ",") + "}"
}

