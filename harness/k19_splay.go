//go:build verif

//verif:pkg pkg/splay

package splay

import (
	"fmt"

	"github.com/yorkie-team/yorkie/internal/zzvsym"
)

type vVal struct {
	name    string
	n       int
	removed *bool
}

func (v *vVal) Len() int {
	if *v.removed {
		return 0
	}
	return v.n
}

func (v *vVal) String() string { return v.name }

// VerifK19SplayModel: the order-statistic splay tree keeps live weight per
// subtree under Insert/InsertAfter/Splay/DeleteRange for every tree shape of
// the bound and every node length (symbolic): weights stay consistent
// (CheckWeight), IndexOf equals the prefix sum of live lengths, FindForText
// returns the node holding a symbolic index.
func VerifK19SplayModel() {
	k := 4 + zzvsym.Tier()
	vals := make([]*vVal, k)
	nodes := make([]*Node[*vVal], k)
	for i := range vals {
		n := zzvsym.Int(fmt.Sprintf("len%d", i))
		zzvsym.Assume(n >= 1)
		zzvsym.Assume(n <= 31)
		r := false
		vals[i] = &vVal{name: fmt.Sprintf("v%d", i), n: n, removed: &r}
		nodes[i] = NewNode(vals[i])
	}
	tree := NewTree(nodes[0])
	order := []int{0} // in-order sequence of node indices
	for i := 1; i < k; i++ {
		p := zzvsym.IntRange(fmt.Sprintf("after%d", i), 0, len(order)-1)
		tree.InsertAfter(nodes[order[p]], nodes[i])
		order = append(order[:p+1:p+1], append([]int{i}, order[p+1:]...)...)
	}
	if s := zzvsym.IntRange("splay", 0, k); s < k {
		tree.Splay(nodes[s])
	}
	zzvsym.Assert(tree.CheckWeight(), "weights-consistent-after-inserts")
	// delete a range: everything strictly between two boundaries (or up to the end)
	l := zzvsym.IntRange("left", 0, k-2)
	r := zzvsym.IntRange("right", l+1, k) // k: no right boundary (delete to the end)
	for q := l + 1; q < r && q < k; q++ {
		*vals[order[q]].removed = true
	}
	if r < k {
		tree.DeleteRange(nodes[order[l]], nodes[order[r]])
	} else {
		tree.DeleteRange(nodes[order[l]], nil)
	}
	zzvsym.Reach("range-deleted")
	zzvsym.Assert(tree.CheckWeight(), "weights-consistent-after-delete-range")
	total := 0
	for _, oi := range order {
		total += vals[oi].Len()
	}
	zzvsym.Assert(tree.Len() == total, "len-is-live-total")
	// a lookup right after the deletion, before anything re-splays the boundary
	idx := zzvsym.Int("idx")
	zzvsym.Assume(idx >= 0)
	zzvsym.Assume(idx <= total)
	node, off, err := tree.FindForText(idx)
	zzvsym.Assert(err == nil, "find-within-length-no-error")
	if err == nil {
		pre := 0
		for _, oi := range order {
			if nodes[oi] == node {
				break
			}
			pre += vals[oi].Len()
		}
		zzvsym.Assert(pre+off == idx, "find-returns-node-holding-index")
		zzvsym.Assert(off >= 0 && off <= node.Value().Len(), "find-offset-within-node")
	}
	pre := 0
	for _, oi := range order {
		if !*vals[oi].removed {
			zzvsym.Assert(tree.IndexOf(nodes[oi]) == pre, "index-of-is-live-prefix-sum")
		}
		pre += vals[oi].Len()
	}
	zzvsym.Observe(tree.Len() == total)
}
