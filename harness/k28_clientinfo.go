//go:build verif

//verif:pkg server/backend/database

package database

import (
	"errors"
	"fmt"

	"github.com/yorkie-team/yorkie/api/types"
	"github.com/yorkie-team/yorkie/internal/zzvsym"
	"github.com/yorkie-team/yorkie/pkg/document"
	"github.com/yorkie-team/yorkie/pkg/document/change"
)

var vDocStatuses = []string{"", DocumentAttaching, DocumentAttached, DocumentDetached, DocumentRemoved}

// vClientInfo builds an arbitrary ClientInfo over two documents: client
// status and every document status are selectors, sequence numbers and epoch
// are symbolic. Because the pre-state is arbitrary, the one-step check below
// covers call sequences of every length.
func vClientInfo() (*ClientInfo, []types.ID, []int) {
	docs := []types.ID{"doc1", "doc2"}
	ci := &ClientInfo{ID: "client", ProjectID: "project", Status: ClientActivated}
	if zzvsym.IntRange("activated", 0, 1) == 0 {
		ci.Status = ClientDeactivated
	}
	st := make([]int, len(docs))
	if zzvsym.IntRange("hasmap", 0, 1) == 1 {
		ci.Documents = ClientDocInfoMap{}
		for i, d := range docs {
			st[i] = zzvsym.IntRange(fmt.Sprintf("st%d", i), 0, 4)
			if st[i] != 0 {
				ci.Documents[d] = &ClientDocInfo{
					Status:    vDocStatuses[st[i]],
					ServerSeq: zzvsym.Int64(fmt.Sprintf("sseq%d", i)),
					ClientSeq: zzvsym.Uint32(fmt.Sprintf("cseq%d", i)),
					Epoch:     zzvsym.Int64(fmt.Sprintf("epoch%d", i)),
				}
			}
		}
	}
	return ci, docs, st
}

// VerifK28ClientInfoFSM: every lifecycle method of ClientInfo accepts or
// rejects, and moves the state, exactly as the documented state machine
// (docs/design/document-client-lifecycle.md) says -- in every state.
func VerifK28ClientInfoFSM() {
	ci, docs, st := vClientInfo()
	active := ci.Status == ClientActivated
	const (
		sAbsent = iota
		sAttaching
		sAttached
		sDetached
		sRemoved
	)
	before := ci.DeepCopy()
	other := before.Documents[docs[1]]
	d := docs[0]
	s0 := st[0]
	method := zzvsym.IntRange("method", 0, 9)
	var err error
	switch method {
	case 0: // Attach (first attach of this Document instance)
		epoch := zzvsym.Int64("newEpoch")
		err = ci.AttachDocument(d, false, epoch)
		ok := active && s0 != sAttached
		zzvsym.Assert((err == nil) == ok, "attach-accepted-iff-activated-and-not-attached")
		if !active {
			zzvsym.Assert(errors.Is(err, ErrClientNotActivated), "attach-rejects-deactivated-client")
		} else if s0 == sAttached {
			zzvsym.Assert(errors.Is(err, ErrDocumentAlreadyAttached), "attach-rejects-attached")
		}
		if err == nil {
			di := ci.Documents[d]
			zzvsym.Assert(di.Status == DocumentAttached && di.ServerSeq == 0 && di.ClientSeq == 0 && di.Epoch == epoch, "attach-resets-checkpoint-and-sets-epoch")
		}
	case 1: // Attach retried by an instance that was attached before: a detached document stays detached
		err = ci.AttachDocument(d, true, zzvsym.Int64("newEpoch"))
		ok := active && s0 != sAttached && s0 != sDetached
		zzvsym.Assert((err == nil) == ok, "reattach-of-detached-instance-refused")
		if active && s0 == sDetached {
			zzvsym.Assert(errors.Is(err, ErrDocumentAlreadyDetached), "reattach-error-code")
		}
	case 2, 3: // Detach / Remove: allowed from Attaching and Attached of an activated client only
		if method == 2 {
			err = ci.DetachDocument(d)
		} else {
			err = ci.RemoveDocument(d)
		}
		ok := active && (s0 == sAttaching || s0 == sAttached)
		zzvsym.Assert((err == nil) == ok, "detach-remove-accepted-iff-attached-or-attaching")
		if err == nil {
			di := ci.Documents[d]
			want := DocumentDetached
			if method == 3 {
				want = DocumentRemoved
			}
			zzvsym.Assert(di.Status == want, "detach-remove-sets-status")
			zzvsym.Assert(di.ServerSeq == 0 && di.ClientSeq == 0, "detach-remove-zeroes-checkpoint")
		} else if active {
			zzvsym.Assert(errors.Is(err, ErrDocumentNotAttached), "detach-remove-error-code")
		} else {
			zzvsym.Assert(errors.Is(err, ErrClientNotActivated), "detach-remove-rejects-deactivated-client")
		}
	case 4: // PushPull precondition
		err = ci.EnsureDocumentAttached(d)
		zzvsym.Assert((err == nil) == (active && s0 == sAttached), "pushpull-only-when-attached")
	case 5:
		err = ci.EnsureDocumentAttachedOrAttaching(d)
		zzvsym.Assert((err == nil) == (active && (s0 == sAttached || s0 == sAttaching)), "attached-or-attaching")
	case 6:
		err = ci.EnsureActivated()
		zzvsym.Assert((err == nil) == active, "ensure-activated")
	case 7: // UpdateDocStatus as pullPack calls it
		status := []document.StatusType{document.StatusAttached, document.StatusDetached, document.StatusRemoved}[zzvsym.IntRange("newStatus", 0, 2)]
		cp := change.NewCheckpoint(zzvsym.Int64("cp_s"), zzvsym.Uint32("cp_c"))
		err = ci.UpdateDocStatus(d, status, cp)
		switch status {
		case document.StatusAttached:
			zzvsym.Assert((err == nil) == (s0 != sAbsent), "update-checkpoint-needs-known-document")
			if err == nil {
				zzvsym.Assert(ci.Checkpoint(d).Equal(cp), "update-checkpoint-stores-checkpoint")
				zzvsym.Assert(ci.Documents[d].Status == vDocStatuses[s0], "update-checkpoint-keeps-status")
			}
		default:
			ok := active && (s0 == sAttaching || s0 == sAttached)
			zzvsym.Assert((err == nil) == ok, "status-change-accepted-iff-attached-or-attaching")
		}
	case 8: // Deactivate
		ci.Deactivate()
		zzvsym.Assert(ci.Status == ClientDeactivated, "deactivate-sets-status")
		zzvsym.Assert(ci.EnsureActivated() != nil, "deactivated-client-cannot-write")
		zzvsym.Assert(ci.EnsureDocumentAttached(d) != nil, "deactivated-client-cannot-pushpull")
	case 9: // the invariant DeactivateClient enforces
		err = ci.EnsureDocumentsNotAttachedWhenDeactivated()
		anyAttached := s0 == sAttached || st[1] == sAttached
		zzvsym.Assert((err == nil) == (active || !anyAttached), "deactivated-client-holds-no-attached-document")
		att, aerr := ci.IsAttached(d)
		zzvsym.Assert((aerr == nil) == (s0 != sAbsent), "is-attached-needs-known-document")
		zzvsym.Assert(att == (s0 == sAttached), "is-attached")
	}
	zzvsym.Reach("stepped")
	// frame conditions: a failed call changes nothing; no call touches the other document
	if err != nil && method <= 7 {
		zzvsym.Assert(ci.Status == before.Status, "failed-call-keeps-client-status")
		b0 := before.Documents[d]
		a0 := ci.Documents[d]
		zzvsym.Assert((a0 == nil) == (b0 == nil), "failed-call-keeps-document-entry")
		if a0 != nil && b0 != nil {
			zzvsym.Assert(*a0 == *b0, "failed-call-keeps-document-state")
		}
	}
	now := ci.Documents[docs[1]]
	zzvsym.Assert((now == nil) == (other == nil), "other-document-entry-untouched")
	if now != nil && other != nil {
		zzvsym.Assert(*now == *other, "other-document-untouched")
	}
	zzvsym.Observe(err == nil, ci.Status)
}
