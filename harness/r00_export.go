//go:build verif

//verif:pkg pkg/document

package document

// Exported entry points of the replica-level harness library, for harnesses
// that live in server packages and drive real replicas through the real
// server code.

const VerifNumTypes = vNumTypes

func VerifBase(d *Document, typ int)                       { vBase(d, typ) }
func VerifEdit(d *Document, name string, typ int, val int) { vEdit(d, name, typ, val) }
func VerifCheckClone(d *Document, tag string)              { vCheckClone(d, tag) }
func VerifSkew(d *Document, name string)                   { vSkew(d, name) }
func VerifSmallAlphabet(on bool)                           { vSmallAlphabet = on }
func VerifPendingChanges(d *Document) int                  { return len(d.doc.localChanges) }
