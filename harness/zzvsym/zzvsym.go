//go:build verif

// Package zzvsym is the harness API of the /verif machinery. It is injected
// into the build by overlay only (it is not part of the repository).
//
// In the symbolic executor (gosmt) every function below is intercepted. This
// file is the native implementation used for differential validation and for
// replaying counterexamples: values come from a valuation (variable -> hex).
package zzvsym

import (
	"encoding/json"
	"fmt"
	"math/big"
	"os"
	"runtime/debug"
	"strings"
	"testing"
)

type state struct {
	val        map[string]*big.Int
	tier       int
	seed       int64
	failed     []string
	observed   []string
	reached    []string
	assumeFail bool
	fresh      int
}

var cur = &state{val: map[string]*big.Int{}}

type assumeFailed struct{}

func get(name string) *big.Int {
	if v, ok := cur.val[name]; ok {
		return v
	}
	return new(big.Int)
}

func u64(name string, bits uint) uint64 {
	m := new(big.Int).Lsh(big.NewInt(1), bits)
	m.Sub(m, big.NewInt(1))
	return new(big.Int).And(get(name), m).Uint64()
}

func Int64(name string) int64   { return int64(u64(name, 64)) }
func Int32(name string) int32   { return int32(u64(name, 32)) }
func Int(name string) int       { return int(int64(u64(name, 64))) }
func Uint64(name string) uint64 { return u64(name, 64) }
func Uint32(name string) uint32 { return uint32(u64(name, 32)) }
func Uint16(name string) uint16 { return uint16(u64(name, 16)) }
func Uint8(name string) uint8   { return uint8(u64(name, 8)) }
func Bool(name string) bool     { return get(name).Sign() != 0 }

// IntRange is a selector with a small explicit range; the executor forks
// over all of its values.
func IntRange(name string, lo, hi int) int {
	v := Int(name)
	if v < lo || v > hi {
		panic(assumeFailed{})
	}
	return v
}

// Bytes returns n bytes with symbolic contents (variables name_0 .. name_{n-1}).
func Bytes(name string, n int) []byte {
	out := make([]byte, n)
	for i := range out {
		out[i] = Uint8(fmt.Sprintf("%s_%d", name, i))
	}
	return out
}

// Actor returns a symbolic 96-bit actor id.
func Actor(name string) [12]byte {
	var out [12]byte
	get(name).FillBytes(out[:])
	return out
}

// DistinctActors assumes the named actor ids pairwise distinct and non-zero.
func DistinctActors(names ...string) {
	for i, a := range names {
		if get(a).Sign() == 0 {
			panic(assumeFailed{})
		}
		for _, b := range names[i+1:] {
			if get(a).Cmp(get(b)) == 0 {
				panic(assumeFailed{})
			}
		}
	}
}

// Nondet is an engine-generated nondeterministic int64 (environment stubs).
func Nondet(name string) int64 {
	cur.fresh++
	return Int64(fmt.Sprintf("nd_%s_%d", name, cur.fresh))
}

func Assume(c bool) {
	if !c {
		panic(assumeFailed{})
	}
}

func Assert(c bool, id string) {
	if !c {
		cur.failed = append(cur.failed, id)
	}
}

func Reach(label string) { cur.reached = append(cur.reached, label) }

func Observe(vals ...any) {
	for _, v := range vals {
		if v == nil {
			cur.observed = append(cur.observed, "<nil>")
			continue
		}
		switch x := v.(type) {
		case []byte:
			parts := make([]string, len(x))
			for i, b := range x {
				parts[i] = fmt.Sprint(b)
			}
			cur.observed = append(cur.observed, "["+strings.Join(parts, " ")+"]")
		default:
			cur.observed = append(cur.observed, fmt.Sprintf("%v", v))
		}
	}
}

// Fails runs f and reports whether it panicked.
func Fails(f func()) (panicked bool) {
	defer func() {
		if r := recover(); r != nil {
			if _, ok := r.(assumeFailed); ok {
				panic(r)
			}
			panicked = true
		}
	}()
	f()
	return false
}

func Tier() int      { return cur.tier }
func Seed() int64    { return cur.seed }
func Symbolic() bool { return false }

var resetHooks []func()

// OnReset registers a function that restores harness-package globals to
// their initial values. The executor runs every path in a fresh interpreter
// (globals are re-initialised); the native driver calls the hooks before each
// replayed case to get the same effect.
func OnReset(f func()) { resetHooks = append(resetHooks, f) }

// ---- native driver ---------------------------------------------------------

type Case struct {
	Harness   string            `json:"harness"`
	Valuation map[string]string `json:"valuation"`
	Tier      int               `json:"tier"`
	Seed      int64             `json:"seed"`
}

type Outcome struct {
	Harness    string   `json:"harness"`
	Failed     []string `json:"failed"`
	Observed   []string `json:"observed"`
	Reached    []string `json:"reached"`
	AssumeFail bool     `json:"assume_failed"`
	Panic      string   `json:"panic,omitempty"`
	Stack      string   `json:"stack,omitempty"`
	Unknown    bool     `json:"unknown_harness,omitempty"`
}

func runOne(c Case, f func()) (out Outcome) {
	cur = &state{val: map[string]*big.Int{}, tier: c.Tier, seed: c.Seed}
	for _, h := range resetHooks {
		h()
	}
	for k, v := range c.Valuation {
		b, ok := new(big.Int).SetString(strings.TrimPrefix(v, "0x"), 16)
		if ok {
			cur.val[k] = b
		}
	}
	out.Harness = c.Harness
	defer func() {
		if r := recover(); r != nil {
			if _, ok := r.(assumeFailed); ok {
				out.AssumeFail = true
			} else {
				out.Panic = fmt.Sprint(r)
				out.Stack = string(debug.Stack())
			}
		}
		out.Failed = cur.failed
		out.Observed = cur.observed
		out.Reached = cur.reached
	}()
	f()
	return
}

// RunNative executes the cases listed in $VERIF_CASES (JSON array of Case)
// against the natively compiled harnesses and writes an array of Outcome to
// $VERIF_OUT.
func RunNative(t *testing.T, harnesses map[string]func()) {
	path := os.Getenv("VERIF_CASES")
	if path == "" {
		t.Skip("VERIF_CASES not set")
	}
	data, err := os.ReadFile(path)
	if err != nil {
		t.Fatal(err)
	}
	var cases []Case
	if err := json.Unmarshal(data, &cases); err != nil {
		t.Fatal(err)
	}
	outs := make([]Outcome, 0, len(cases))
	for _, c := range cases {
		f, ok := harnesses[c.Harness]
		if !ok {
			outs = append(outs, Outcome{Harness: c.Harness, Unknown: true})
			continue
		}
		outs = append(outs, runOne(c, f))
	}
	res, _ := json.MarshalIndent(outs, "", " ")
	if err := os.WriteFile(os.Getenv("VERIF_OUT"), res, 0o644); err != nil {
		t.Fatal(err)
	}
}

// Noop does nothing; the engine hands it out where a stubbed library call
// has to return a func() (context cancel functions).
func Noop() {}
