//go:build verif

//verif:pkg server/packs

package packs

import (
	"fmt"

	"github.com/yorkie-team/yorkie/internal/zzvsym"
	"github.com/yorkie-team/yorkie/pkg/document/change"
	"github.com/yorkie-team/yorkie/pkg/document/crdt"
	"github.com/yorkie-team/yorkie/pkg/document/operations"
	"github.com/yorkie-team/yorkie/pkg/document/presence/inner"
	"github.com/yorkie-team/yorkie/pkg/document/time"
)

// VerifK30StripPresence: stripping a pack for a presenceless document
// leaves no presence, keeps every operation-carrying change in order and
// drops exactly the presence-only ones.
func VerifK30StripPresence() {
	n := zzvsym.IntRange("n", 0, 3+zzvsym.Tier())
	var cs []*change.Change
	hasOps := make([]bool, n)
	for i := 0; i < n; i++ {
		kind := zzvsym.IntRange(fmt.Sprintf("kind%d", i), 0, 2) // 0 ops only, 1 presence only, 2 both
		var ops []operations.Operation
		var pc *inner.Change
		tk := time.NewTicket(int64(i+1), 0, time.InitialActorID)
		if kind != 1 {
			v, _ := crdt.NewPrimitive(i, tk)
			ops = append(ops, operations.NewSet(time.InitialTicket, "k", v, tk))
			hasOps[i] = true
		}
		if kind != 0 {
			pc = &inner.Change{ChangeType: inner.Put, Presence: inner.Presence{"c": "x"}}
		}
		id := change.NewID(uint32(i+1), 0, int64(i+1), time.InitialActorID, time.NewVersionVector())
		cs = append(cs, change.New(id, "", ops, pc))
	}
	out := stripPresenceChanges(cs)
	zzvsym.Reach("stripped")
	k := 0
	for i := 0; i < n; i++ {
		if !hasOps[i] {
			continue
		}
		zzvsym.Assert(k < len(out), "operation-carrying-change-kept")
		if k < len(out) {
			zzvsym.Assert(out[k].ClientSeq() == uint32(i+1), "order-preserved")
			zzvsym.Assert(out[k].PresenceChange() == nil, "presence-removed")
			zzvsym.Assert(out[k].HasOperations(), "operations-kept")
		}
		k++
	}
	zzvsym.Assert(len(out) == k, "presence-only-changes-dropped")
	zzvsym.Observe(len(out))
}
