//go:build verif

//verif:pkg pkg/document/change

package change

import (
	"fmt"

	"github.com/yorkie-team/yorkie/internal/zzvsym"
	"github.com/yorkie-team/yorkie/pkg/document/time"
)

func vActors(n int) []time.ActorID {
	names := make([]string, n)
	out := make([]time.ActorID, n)
	for i := range names {
		names[i] = fmt.Sprintf("act%d", i)
		out[i] = time.ActorID(zzvsym.Actor(names[i]))
	}
	zzvsym.DistinctActors(names...)
	return out
}

func vLamport(name string) int64 {
	v := zzvsym.Int64(name)
	zzvsym.Assume(v >= 1)
	zzvsym.Assume(v < 1<<62)
	return v
}

// vID builds a change ID of actor uni[self] that satisfies the
// representation invariant established by InitialID/Next/SyncClocks:
// vv[self] == lamport and every entry <= lamport.
func vID(name string, uni []time.ActorID, self int) ID {
	l := vLamport(name + "_l")
	vv := time.NewVersionVector()
	for i, a := range uni {
		if i == self {
			vv[a] = l
			continue
		}
		if zzvsym.Bool(fmt.Sprintf("%s_has%d", name, i)) {
			v := zzvsym.Int64(fmt.Sprintf("%s_v%d", name, i))
			zzvsym.Assume(v >= 0)
			zzvsym.Assume(v <= l)
			vv[a] = v
		}
	}
	return NewID(zzvsym.Uint32(name+"_cs"), 0, l, uni[self], vv)
}

func vInv(id ID, uni []time.ActorID, tag string) {
	zzvsym.Assert(id.VersionVector().VersionOf(id.ActorID()) == id.Lamport(), tag+"-own-entry-is-lamport")
	for _, a := range uni {
		zzvsym.Assert(id.VersionVector().VersionOf(a) <= id.Lamport(), tag+"-entries-le-lamport")
	}
}

// VerifK16Next: Next() is strictly newer, names its author at its own
// timestamp and leaves the previous ID untouched.
func VerifK16Next() {
	uni := vActors(3)
	id := vID("id", uni, 0)
	before := id.VersionVector().DeepCopy()
	nx := id.Next()
	zzvsym.Reach("next")
	zzvsym.Assert(nx.Lamport() == id.Lamport()+1, "next-lamport-plus-one")
	zzvsym.Assert(nx.Lamport() > id.Lamport(), "next-strictly-newer")
	zzvsym.Assert(nx.ClientSeq() == id.ClientSeq()+1, "next-clientseq")
	zzvsym.Assert(nx.ActorID() == id.ActorID(), "next-same-actor")
	for _, a := range uni {
		zzvsym.Assert(nx.VersionVector().VersionOf(a) >= before.VersionOf(a), "next-vv-monotone")
		zzvsym.Assert(id.VersionVector().VersionOf(a) == before.VersionOf(a), "next-does-not-alias")
		if a != id.ActorID() {
			zzvsym.Assert(nx.VersionVector().VersionOf(a) == before.VersionOf(a), "next-others-unchanged")
		}
	}
	vInv(nx, uni, "next")
	zzvsym.Observe(nx.Lamport(), nx.ClientSeq())
	// presence-only ids carry no clocks and still advance the client sequence
	pz := id.Next(true)
	zzvsym.Assert(!pz.HasClocks(), "next-excluded-has-no-clocks")
	zzvsym.Assert(pz.ClientSeq() == id.ClientSeq()+1, "next-excluded-clientseq")
}

// VerifK16SyncClocks: applying a remote change id makes the local clock
// strictly newer than both, covers both vectors, and keeps the invariant.
func VerifK16SyncClocks() {
	uni := vActors(3)
	id := vID("id", uni, 0)
	other := vID("ot", uni, 1)
	// causality: nobody knows more about an actor than the actor itself
	zzvsym.Assume(other.VersionVector().VersionOf(uni[0]) <= id.Lamport())
	before := id.VersionVector().DeepCopy()
	kind := zzvsym.IntRange("kind", 0, 1)
	var r ID
	if kind == 0 {
		r = id.SyncClocks(other)
	} else {
		r = id.SyncLamport(other)
	}
	zzvsym.Reach("synced")
	zzvsym.Assert(r.Lamport() > id.Lamport(), "sync-newer-than-self")
	zzvsym.Assert(r.Lamport() > other.Lamport(), "sync-newer-than-other")
	zzvsym.Assert(r.ActorID() == id.ActorID(), "sync-same-actor")
	zzvsym.Assert(r.ClientSeq() == id.ClientSeq(), "sync-clientseq-unchanged")
	for _, a := range uni {
		zzvsym.Assert(r.VersionVector().VersionOf(a) >= before.VersionOf(a), "sync-vv-covers-self")
		if kind == 0 {
			zzvsym.Assert(r.VersionVector().VersionOf(a) >= other.VersionVector().VersionOf(a), "sync-vv-covers-other")
			if a != id.ActorID() {
				want := before.VersionOf(a)
				if o := other.VersionVector().VersionOf(a); o > want {
					want = o
				}
				zzvsym.Assert(r.VersionVector().VersionOf(a) == want, "sync-vv-is-max")
			}
		}
	}
	vInv(r, uni, "sync")
	zzvsym.Observe(r.Lamport(), r.VersionVector().VersionOf(uni[1]), r.VersionVector().VersionOf(uni[2]))
}

// VerifK16SyncNoClocks: a change id without clocks (presence-only change)
// leaves the receiver's id unchanged.
func VerifK16SyncNoClocks() {
	uni := vActors(3)
	id := vID("id", uni, 0)
	other := vID("ot", uni, 1).Next(true)
	r := id.SyncClocks(other)
	r2 := id.SyncLamport(other)
	zzvsym.Reach("noclocks")
	zzvsym.Assert(r.Lamport() == id.Lamport(), "noclocks-identity")
	zzvsym.Assert(r2.Lamport() == id.Lamport(), "noclocks-identity-lamport")
	zzvsym.Assert(r.VersionVector().VersionOf(uni[0]) == id.Lamport(), "noclocks-vv")
}

// VerifK16SetClocks: snapshot receivers adopt max(lamports)+1 and the
// pointwise max of vectors.
func VerifK16SetClocks() {
	uni := vActors(3)
	id := vID("id", uni, 0)
	vec := time.NewVersionVector()
	for i, a := range uni {
		if zzvsym.Bool(fmt.Sprintf("sn_has%d", i)) {
			v := zzvsym.Int64(fmt.Sprintf("sn_v%d", i))
			zzvsym.Assume(v >= 0)
			zzvsym.Assume(v < 1<<62)
			vec[a] = v
		}
	}
	zzvsym.Assume(vec.VersionOf(uni[0]) <= id.Lamport())
	before := id.VersionVector().DeepCopy()
	ml := vec.MaxLamport()
	r := id.SetClocks(ml, vec)
	zzvsym.Reach("setclocks")
	zzvsym.Assert(r.Lamport() > id.Lamport(), "set-newer-than-self")
	zzvsym.Assert(r.Lamport() > ml, "set-newer-than-snapshot")
	for _, a := range uni {
		zzvsym.Assert(r.VersionVector().VersionOf(a) >= before.VersionOf(a), "set-covers-self")
		zzvsym.Assert(r.VersionVector().VersionOf(a) >= vec.VersionOf(a), "set-covers-snapshot")
	}
	vInv(r, uni, "set")
	zzvsym.Observe(r.Lamport())
}

// VerifK10Checkpoint: checkpoint algebra used by the server and the client.
func VerifK10Checkpoint() {
	a := NewCheckpoint(zzvsym.Int64("a_s"), zzvsym.Uint32("a_c"))
	b := NewCheckpoint(zzvsym.Int64("b_s"), zzvsym.Uint32("b_c"))
	c := NewCheckpoint(zzvsym.Int64("c_s"), zzvsym.Uint32("c_c"))
	f := a.Forward(b)
	zzvsym.Reach("forward")
	zzvsym.Assert(f.ServerSeq >= a.ServerSeq, "forward-monotone-server-a")
	zzvsym.Assert(f.ServerSeq >= b.ServerSeq, "forward-monotone-server-b")
	zzvsym.Assert(f.ClientSeq >= a.ClientSeq, "forward-monotone-client-a")
	zzvsym.Assert(f.ClientSeq >= b.ClientSeq, "forward-monotone-client-b")
	zzvsym.Assert(f.ServerSeq == a.ServerSeq || f.ServerSeq == b.ServerSeq, "forward-server-is-one-of")
	zzvsym.Assert(f.ClientSeq == a.ClientSeq || f.ClientSeq == b.ClientSeq, "forward-client-is-one-of")
	zzvsym.Assert(f.Equal(b.Forward(a)), "forward-commutative")
	zzvsym.Assert(f.Forward(b).Equal(f), "forward-idempotent")
	zzvsym.Assert(a.Forward(b).Forward(c).Equal(a.Forward(b.Forward(c))), "forward-associative")
	s := zzvsym.Int64("s")
	n := a.NextServerSeq(s)
	zzvsym.Assert(n.ServerSeq == s, "next-server-seq-sets")
	zzvsym.Assert(n.ClientSeq == a.ClientSeq, "next-server-seq-keeps-client")
	cs := zzvsym.Uint32("cs")
	y := a.SyncClientSeq(cs)
	zzvsym.Assert(y.ClientSeq >= a.ClientSeq, "sync-client-never-decreases")
	zzvsym.Assert(y.ClientSeq >= cs, "sync-client-covers")
	zzvsym.Assert(y.ClientSeq == a.ClientSeq || y.ClientSeq == cs, "sync-client-one-of")
	zzvsym.Assert(y.ServerSeq == a.ServerSeq, "sync-client-keeps-server")
	inc := zzvsym.Uint32("inc")
	zzvsym.Assume(a.ClientSeq < 1<<31)
	zzvsym.Assume(inc < 1<<31)
	i := a.IncreaseClientSeq(inc)
	zzvsym.Assert(i.ClientSeq == a.ClientSeq+inc, "increase-adds")
	zzvsym.Assert(i.ClientSeq >= a.ClientSeq, "increase-never-decreases")
	zzvsym.Assert(a.NextClientSeq().ClientSeq == a.ClientSeq+1, "next-client-seq")
	zzvsym.Observe(f.ServerSeq, f.ClientSeq, y.ClientSeq, i.ClientSeq)
}
