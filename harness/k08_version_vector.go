//go:build verif

//verif:pkg pkg/document/time

package time

import (
	"fmt"

	"github.com/yorkie-team/yorkie/internal/zzvsym"
)

// vUniverse returns n pairwise distinct symbolic actor ids.
func vUniverse(n int) []ActorID {
	names := make([]string, n)
	out := make([]ActorID, n)
	for i := range names {
		names[i] = fmt.Sprintf("act%d", i)
		out[i] = ActorID(zzvsym.Actor(names[i]))
	}
	zzvsym.DistinctActors(names...)
	return out
}

// vVector builds a version vector over the universe: presence of every key
// is a symbolic bool, every value a symbolic lamport in [0, 2^62).
func vVector(name string, uni []ActorID) VersionVector {
	vv := NewVersionVector()
	for i, a := range uni {
		if zzvsym.Bool(fmt.Sprintf("%s_has%d", name, i)) {
			v := zzvsym.Int64(fmt.Sprintf("%s_v%d", name, i))
			zzvsym.Assume(v >= 0)
			zzvsym.Assume(v < 1<<62)
			vv[a] = v
		}
	}
	return vv
}

func vMin2(a, b int64) int64 {
	if a < b {
		return a
	}
	return b
}

// VerifK8MinVersionVector: MinVersionVector is the pointwise minimum with
// absent = 0 over the union of keys; it never exceeds any input vector.
func VerifK8MinVersionVector() {
	uni := vUniverse(3)
	n := zzvsym.IntRange("nvec", 1, 3)
	vecs := make([]VersionVector, n)
	for i := range vecs {
		vecs[i] = vVector(fmt.Sprintf("v%d", i), uni)
	}
	m := MinVersionVector(vecs...)
	zzvsym.Reach("min-computed")
	for _, a := range uni {
		got, present := m.Get(a)
		want := int64(1) << 62
		inUnion := false
		for _, v := range vecs {
			x := v.VersionOf(a) // absent counts as 0
			want = vMin2(want, x)
			if _, ok := v.Get(a); ok {
				inUnion = true
			}
			// the property of C06: the minimum never overstates any client
			zzvsym.Assert(m.VersionOf(a) <= x, "min-lower-bound")
		}
		zzvsym.Assert(present == inUnion, "min-keys-are-union")
		if present {
			zzvsym.Assert(got == want, "min-exact")
		}
		zzvsym.Observe(present, got)
	}
	zzvsym.Assert(len(m) <= 3, "min-no-foreign-keys")
}

// VerifK8MinMaxInPlace: VersionVector.Min / Max (in place) are pointwise
// min / max with absent = 0 (Min) resp. absent = missing (Max).
func VerifK8MinMaxInPlace() {
	uni := vUniverse(3)
	a, b := vVector("a", uni), vVector("b", uni)
	a0, b0 := a.DeepCopy(), b.DeepCopy()
	which := zzvsym.IntRange("op", 0, 1)
	if which == 0 {
		a.Min(&b)
	} else {
		a.Max(&b)
	}
	zzvsym.Reach("inplace")
	for _, k := range uni {
		x, xok := a0.Get(k)
		y, yok := b0.Get(k)
		got, ok := a.Get(k)
		zzvsym.Assert(ok == (xok || yok), "keys-union")
		if which == 0 {
			want := int64(0)
			if xok && yok {
				want = vMin2(x, y)
			}
			zzvsym.Assert(a.VersionOf(k) == want, "min-pointwise")
		} else {
			want := x
			if !xok || (yok && y > x) {
				want = y
			}
			zzvsym.Assert(a.VersionOf(k) == want, "max-pointwise")
			zzvsym.Assert(a.VersionOf(k) >= a0.VersionOf(k), "max-grows-receiver")
			zzvsym.Assert(a.VersionOf(k) >= b0.VersionOf(k), "max-covers-argument")
		}
		// the argument is never modified
		by, byok := b.Get(k)
		zzvsym.Assert(byok == yok, "arg-keys-unchanged")
		zzvsym.Assert(by == y, "arg-values-unchanged")
		zzvsym.Observe(got, ok)
	}
}

// VerifK8Comparisons: AfterOrEqual, EqualToOrAfter, MaxLamport, Filter,
// DeepCopy against their pointwise definitions.
func VerifK8Comparisons() {
	uni := vUniverse(3)
	a, b := vVector("a", uni), vVector("b", uni)
	ge := true
	maxL := int64(-1)
	for _, k := range uni {
		if a.VersionOf(k) < b.VersionOf(k) {
			ge = false
		}
		if v, ok := a.Get(k); ok && v > maxL {
			maxL = v
		}
	}
	zzvsym.Reach("cmp")
	zzvsym.Assert(a.AfterOrEqual(b) == ge, "after-or-equal-pointwise")
	zzvsym.Assert(a.MaxLamport() == maxL, "max-lamport")
	// EqualToOrAfter: the GC predicate
	ti := zzvsym.IntRange("tactor", 0, 2)
	tl := zzvsym.Int64("tl")
	zzvsym.Assume(tl >= 0)
	tk := NewTicket(tl, zzvsym.Uint32("td"), uni[ti])
	v, ok := a.Get(uni[ti])
	zzvsym.Assert(a.EqualToOrAfter(tk) == (ok && v >= tl), "equal-to-or-after")
	// Filter keeps exactly the listed actors with their values (absent -> 0)
	f := a.Filter([]ActorID{uni[0], uni[2]})
	zzvsym.Assert(len(f) == 2, "filter-len")
	zzvsym.Assert(f.VersionOf(uni[0]) == a.VersionOf(uni[0]), "filter-0")
	zzvsym.Assert(f.VersionOf(uni[2]) == a.VersionOf(uni[2]), "filter-2")
	_, has1 := f.Get(uni[1])
	zzvsym.Assert(!has1, "filter-drops")
	c := a.DeepCopy()
	zzvsym.Assert(c.Equal(a), "deepcopy-equal")
	zzvsym.Assert(len(c) == len(a), "deepcopy-len")
	zzvsym.Observe(a.AfterOrEqual(b), a.MaxLamport(), a.EqualToOrAfter(tk))
}

// VerifK8BytesRoundTrip: VersionVectorFromBytes(v.Bytes()) == v.
func VerifK8BytesRoundTrip() {
	uni := vUniverse(3)
	a := vVector("a", uni)
	bs, err := a.Bytes()
	zzvsym.Assert(err == nil, "bytes-no-error")
	zzvsym.Assert(len(bs) == 8+len(a)*(12+8), "bytes-length")
	back, err := VersionVectorFromBytes(bs)
	zzvsym.Reach("decoded")
	zzvsym.Assert(err == nil, "decode-no-error")
	zzvsym.Assert(len(back) == len(a), "roundtrip-len")
	for _, k := range uni {
		x, xok := a.Get(k)
		y, yok := back.Get(k)
		zzvsym.Assert(xok == yok, "roundtrip-keys")
		zzvsym.Assert(x == y, "roundtrip-values")
	}
	zzvsym.Observe(len(bs))
}
