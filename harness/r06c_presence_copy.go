//go:build verif

//verif:pkg pkg/document

package document

import (
	"sort"
	"strings"

	"github.com/yorkie-team/yorkie/internal/zzvsym"
	"github.com/yorkie-team/yorkie/pkg/document/json"
	"github.com/yorkie-team/yorkie/pkg/document/presence"
)

func vRenderPresence(data map[string]string, present bool) string {
	if !present {
		return "<none>"
	}
	var parts []string
	for k, v := range data {
		parts = append(parts, k+"="+v)
	}
	sort.Strings(parts)
	return "{" + strings.Join(parts, ",") + "}"
}

// VerifR6cPresenceCopy: the presence handed to user callbacks is the
// document's working copy of the authoritative presence. Whatever sequence
// of Initialize / Set / Delete / Clear calls the callbacks make -- across
// Updates, with failing Updates, remote changes and snapshots in between --
// every call acts on the presence the document really holds: afterwards
// MyPresence() (and what a peer receives) equals a plain map model.
func VerifR6cPresenceCopy() {
	a, b := vReplica("actA"), vReplica("actB")
	s := vNewSrv()
	model, present := map[string]string{}, false
	steps := 3 + zzvsym.Tier()
	for i := 0; i < steps; i++ {
		k := zzvsym.IntRange(vName("op", i), 0, 4)
		if i == 0 {
			k = 0 // a replica starts by attaching with its initial presence
		}
		fail := i > 0 && zzvsym.IntRange(vName("fails", i), 0, 1) == 1
		err := a.Update(func(root *json.Object, p *presence.Presence) error {
			switch k {
			case 0:
				p.Initialize(presence.Data{"color": "red", "name": vName("n", i)})
			case 1:
				p.Set("cursor", vName("c", i))
			case 2:
				p.Set("color", vName("blue", i))
			case 3:
				p.Delete("name")
			case 4:
				p.Clear()
			}
			if fail {
				return errRejected
			}
			return nil
		})
		zzvsym.Assert((err != nil) == fail, "update-result-as-requested")
		if !fail {
			switch k {
			case 0:
				model, present = map[string]string{"color": "red", "name": vName("n", i)}, true
			case 1:
				model["cursor"], present = vName("c", i), true
			case 2:
				model["color"], present = vName("blue", i), true
			case 3:
				delete(model, "name")
				present = true
			case 4:
				model, present = map[string]string{}, false
			}
		}
		mine, ok := a.AllPresences()[a.ActorID().String()]
		zzvsym.Assert(vRenderPresence(mine, ok) == vRenderPresence(model, present), vName("step", i)+"-presence-equals-map-model")
		switch zzvsym.IntRange(vName("then", i), 0, 2) {
		case 1: // a sync, with a remote change coming in
			err := b.Update(func(root *json.Object, p *presence.Presence) error {
				root.SetInteger("b", i)
				return nil
			})
			zzvsym.Assert(err == nil, "peer-update-no-error")
			s.sync(1, b)
			s.sync(0, a)
		case 2: // the replica is answered with a snapshot
			s.sync(0, a)
			s.syncSnapshot(0, a, false)
		}
	}
	s.sync(0, a)
	s.sync(1, b)
	zzvsym.Reach("compared")
	theirs, ok := b.AllPresences()[a.ActorID().String()]
	zzvsym.Assert(vRenderPresence(theirs, ok) == vRenderPresence(model, present), "peer-receives-the-modelled-presence")
	zzvsym.Observe(vRenderPresence(model, present))
}
