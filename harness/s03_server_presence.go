//go:build verif

//verif:pkg server/documents

package documents

import (
	"context"
	"fmt"
	"sort"
	"strings"

	"github.com/yorkie-team/yorkie/api/types"
	"github.com/yorkie-team/yorkie/internal/zzvsym"
	"github.com/yorkie-team/yorkie/pkg/document"
	"github.com/yorkie-team/yorkie/pkg/document/json"
	"github.com/yorkie-team/yorkie/pkg/document/presence"
	"github.com/yorkie-team/yorkie/pkg/key"
	"github.com/yorkie-team/yorkie/server/backend"
	"github.com/yorkie-team/yorkie/server/clients"
)

// vPeerNames maps client ids (random natively, counters in the engine) to the
// names the harness gave the peers.
var vPeerNames = map[string]string{}

// vPresences renders everything replica d knows about presences.
func vPresences(d *document.Document) string {
	all := d.AllPresences()
	ids := make([]string, 0, len(all))
	for id := range all {
		ids = append(ids, id)
	}
	sort.Strings(ids)
	var out []string
	for _, id := range ids {
		var kv []string
		for k, v := range all[id] {
			kv = append(kv, k+"="+v)
		}
		sort.Strings(kv)
		out = append(out, vPeerNames[id]+"{"+strings.Join(kv, ",")+"}")
	}
	sort.Strings(out) // client ids are random natively: order by name
	return strings.Join(out, " ")
}

// vAttachPeerWithPresence attaches like the SDK does: the first change of
// the replica carries its initial presence.
func vAttachPeerWithPresence(ctx context.Context, be *backend.Backend, project *types.Project, clientKey string, docKey key.Key, color string) *vPeer {
	info, err := clients.Activate(ctx, be, project, clientKey, nil)
	zzvsym.Assert(err == nil, "activate-no-error")
	actor, err := info.ID.ToActorID()
	zzvsym.Assert(err == nil, "client-id-is-an-actor-id")
	doc := document.New(docKey)
	doc.SetActor(actor)
	vPeerNames[actor.String()] = clientKey
	err = doc.Update(func(r *json.Object, p *presence.Presence) error {
		p.Initialize(presence.Data{"color": color})
		return nil
	})
	zzvsym.Assert(err == nil, "initial-presence-no-error")
	docInfo, err := FindOrCreateDocInfo(ctx, be, info, docKey, false)
	zzvsym.Assert(err == nil, "find-or-create-doc-no-error")
	info, err = clients.AttachDocument(ctx, be, info, docInfo, false)
	zzvsym.Assert(err == nil, "attach-no-error")
	p := &vPeer{be: be, project: project, info: info, doc: doc, refKey: docInfo.RefKey()}
	p.pushPull(ctx, document.StatusAttached, false)
	doc.SetStatus(document.StatusAttached)
	return p
}

// VerifS3ServerPresence: presence through the real server code: whoever is
// attached sees, after synchronising, the same presences as everybody else --
// when the server answers with changes and when it answers with a snapshot
// it built (a requester far enough behind), for requests that carry presence
// only, presence and content, or nothing; a detached client disappears.
func VerifS3ServerPresence() {
	ctx := context.Background()
	be, _ := vNewServer()
	project := &types.Project{
		ID:                "proj00000000000000000001",
		SnapshotThreshold: []int64{1 << 40, 2}[zzvsym.IntRange("snapshots", 0, 1)],
		SnapshotInterval:  1 << 40,
	}
	docKey := key.Key("s3-doc")
	a := vAttachPeerWithPresence(ctx, be, project, "ca", docKey, "red")
	// A writes: the log grows while nobody else is attached
	n := zzvsym.IntRange("aWrites", 0, 3)
	for i := 0; i < n; i++ {
		a.set(ctx, fmt.Sprintf("k%d", i), i)
	}
	// B attaches late, with its initial presence
	b := vAttachPeerWithPresence(ctx, be, project, "cb", docKey, "blue")
	a.pushPull(ctx, document.StatusAttached, true)
	zzvsym.Reach("both-attached")
	zzvsym.Assert(a.doc.Marshal() == b.doc.Marshal(), "content-converges")
	zzvsym.Assert(vPresences(a.doc) == vPresences(b.doc), "presences-identical-after-attach")
	bActor := b.doc.ActorID().String()
	_, own := b.doc.AllPresences()[bActor]
	zzvsym.Assert(own, "late-attacher-knows-its-own-presence")

	// A keeps writing; B sends a request that carries presence only, presence
	// and content, or nothing
	m := zzvsym.IntRange("aWritesMore", 0, 3)
	for i := 0; i < m; i++ {
		a.set(ctx, fmt.Sprintf("m%d", i), i)
	}
	bSends := zzvsym.IntRange("bSends", 0, 2)
	switch bSends {
	case 0: // presence only
		err := b.doc.Update(func(r *json.Object, p *presence.Presence) error {
			p.Set("cursor", "7")
			return nil
		})
		zzvsym.Assert(err == nil, "presence-update-no-error")
	case 1: // presence and content
		err := b.doc.Update(func(r *json.Object, p *presence.Presence) error {
			p.Set("cursor", "8")
			r.SetInteger("fromB", 1)
			return nil
		})
		zzvsym.Assert(err == nil, "presence-and-content-update-no-error")
	}
	b.pushPull(ctx, document.StatusAttached, true)
	a.pushPull(ctx, document.StatusAttached, true)
	b.pushPull(ctx, document.StatusAttached, true)
	zzvsym.Reach("synced-again")
	zzvsym.Assert(a.doc.Marshal() == b.doc.Marshal(), "content-converges-again")
	zzvsym.Assert(vPresences(a.doc) == vPresences(b.doc), "presences-identical-after-presence-change")
	// Set changes one key; the keys given at attach time stay
	want := map[int]string{0: "ca{color=red} cb{color=blue,cursor=7}", 1: "ca{color=red} cb{color=blue,cursor=8}", 2: "ca{color=red} cb{color=blue}"}[bSends]
	zzvsym.Assert(vPresences(a.doc) == want, "presence-shows-every-key-that-was-set")

	// B detaches: its last change clears its presence
	err := b.doc.Update(func(r *json.Object, p *presence.Presence) error {
		p.Clear()
		return nil
	})
	zzvsym.Assert(err == nil, "clear-update-no-error")
	b.pushPull(ctx, document.StatusDetached, true)
	a.pushPull(ctx, document.StatusAttached, true)
	_, still := a.doc.AllPresences()[bActor]
	zzvsym.Assert(!still, "detached-client-disappears")
	zzvsym.Assert(!a.failed && !b.failed, "no-sync-failed")
	zzvsym.Observe(vPresences(a.doc), a.doc.Marshal())
}
