//go:build verif

//verif:pkg server/documents

package documents

import (
	"context"
	"fmt"

	"github.com/yorkie-team/yorkie/api/converter"
	"github.com/yorkie-team/yorkie/api/types"
	"github.com/yorkie-team/yorkie/internal/zzvsym"
	"github.com/yorkie-team/yorkie/pkg/document"
	"github.com/yorkie-team/yorkie/pkg/document/change"
	"github.com/yorkie-team/yorkie/pkg/document/json"
	"github.com/yorkie-team/yorkie/pkg/document/presence"
	"github.com/yorkie-team/yorkie/pkg/key"
	"github.com/yorkie-team/yorkie/server/backend"
	"github.com/yorkie-team/yorkie/server/backend/database"
	"github.com/yorkie-team/yorkie/server/backend/database/memory"
	"github.com/yorkie-team/yorkie/server/clients"
	"github.com/yorkie-team/yorkie/server/logging"
	"github.com/yorkie-team/yorkie/server/packs"
	"github.com/yorkie-team/yorkie/server/profiling/prometheus"
)

// vPeer stands for one SDK client: a real document replica that talks to the
// real server code (clients, documents, packs on the in-memory database) the
// way the RPC handlers do.
type vPeer struct {
	be      *backend.Backend
	project *types.Project
	info    *database.ClientInfo
	doc     *document.Document
	refKey  types.DocRefKey
	failed  bool
}

func vWirePack(p *change.Pack) *change.Pack {
	pb, err := converter.ToChangePack(p)
	zzvsym.Assert(err == nil, "wire-encode-no-error")
	out, err := converter.FromChangePack(pb)
	zzvsym.Assert(err == nil, "wire-decode-no-error")
	return out
}

func vAttachPeer(ctx context.Context, be *backend.Backend, project *types.Project, clientKey string, docKey key.Key) *vPeer {
	info, err := clients.Activate(ctx, be, project, clientKey, nil)
	zzvsym.Assert(err == nil, "activate-no-error")
	actor, err := info.ID.ToActorID()
	zzvsym.Assert(err == nil, "client-id-is-an-actor-id")
	doc := document.New(docKey)
	doc.SetActor(actor)
	docInfo, err := FindOrCreateDocInfo(ctx, be, info, docKey, false)
	zzvsym.Assert(err == nil, "find-or-create-doc-no-error")
	info, err = clients.AttachDocument(ctx, be, info, docInfo, false)
	zzvsym.Assert(err == nil, "attach-no-error")
	p := &vPeer{be: be, project: project, info: info, doc: doc, refKey: docInfo.RefKey()}
	p.pushPull(ctx, document.StatusAttached, false)
	return p
}

func (p *vPeer) pushPull(ctx context.Context, status document.StatusType, reload bool) {
	if reload {
		info, err := clients.FindActiveClientInfo(ctx, p.be, p.info.RefKey())
		zzvsym.Assert(err == nil, "find-client-no-error")
		p.info = info
	}
	res, err := packs.PushPull(ctx, p.be, p.project, p.info, p.refKey, vWirePack(p.doc.CreateChangePack()),
		packs.PushPullOptions{Mode: types.SyncModePushPull, Status: status})
	if err != nil {
		p.failed = true
		zzvsym.Assert(false, "pushpull-no-error")
		return
	}
	pb, err := res.ToPBChangePack()
	zzvsym.Assert(err == nil, "response-encode-no-error")
	pack, err := converter.FromChangePack(pb)
	zzvsym.Assert(err == nil, "response-decode-no-error")
	if err := p.doc.ApplyChangePack(pack); err != nil {
		p.failed = true
		zzvsym.Assert(false, "apply-response-no-error")
	}
}

func (p *vPeer) set(ctx context.Context, k string, v int) {
	err := p.doc.Update(func(r *json.Object, _ *presence.Presence) error {
		r.SetInteger(k, v)
		return nil
	})
	zzvsym.Assert(err == nil, "update-no-error")
	p.pushPull(ctx, document.StatusAttached, true)
}

// VerifK32CompactionFlow: the whole compaction flow of the real server
// (clients / documents / packs / memory DB, with the real built-document
// cache): after a document with n1 changes was compacted, a fresh attach
// receives the content present before, the generation counter grew, and
// after n2 further changes a late fresh attach -- served from the change log
// or from a server-built snapshot depending on the threshold -- receives
// exactly what the up-to-date client shows.
func VerifK32CompactionFlow() {
	ctx := context.Background()
	db, err := memory.New()
	zzvsym.Assert(err == nil, "memdb-new-no-error")
	logging.DefaultLogger()
	metrics, err := prometheus.NewMetrics()
	zzvsym.Assert(err == nil, "metrics-new-no-error")
	be := backend.VerifNewBackend(&backend.Config{Hostname: "h"}, db, metrics)
	project := &types.Project{
		ID:                "proj00000000000000000001",
		SnapshotThreshold: int64(zzvsym.IntRange("threshold", 1, 3)),
		SnapshotInterval:  1 << 40, // no stored snapshots (that is a background task)
	}
	docKey := key.Key("k32-doc")

	// old generation
	n1 := zzvsym.IntRange("before", 1, 3)
	c1 := vAttachPeer(ctx, be, project, "c1", docKey)
	for i := 0; i < n1; i++ {
		c1.set(ctx, fmt.Sprintf("k%d", i), i)
	}
	before := c1.doc.Marshal()
	if zzvsym.IntRange("lateReader", 0, 1) == 1 {
		// another client catches up through a server-built document first
		// (what fills the built-document cache in ordinary operation)
		r := vAttachPeer(ctx, be, project, "r", docKey)
		zzvsym.Assert(r.doc.Marshal() == before, "reader-before-compaction-converges")
		r.pushPull(ctx, document.StatusDetached, true)
	}
	c1.pushPull(ctx, document.StatusDetached, true)
	docInfo, err := FindDocInfoByRefKey(ctx, be, c1.refKey)
	zzvsym.Assert(err == nil, "find-doc-no-error")
	oldEpoch := docInfo.Epoch

	err = packs.Compact(ctx, be, project.ID, docInfo, false)
	zzvsym.Assert(err == nil, "compact-no-error")
	zzvsym.Reach("compacted")
	docInfo, err = FindDocInfoByRefKey(ctx, be, c1.refKey)
	zzvsym.Assert(err == nil, "find-doc-after-compaction-no-error")
	zzvsym.Assert(docInfo.Epoch > oldEpoch, "epoch-bumped-by-compaction")
	zzvsym.Assert(docInfo.ServerSeq == 1, "compacted-log-is-one-change")

	// a fresh attach right after compaction
	c2 := vAttachPeer(ctx, be, project, "c2", docKey)
	zzvsym.Assert(c2.doc.Marshal() == before, "attach-after-compaction-receives-content-before")

	// the new log grows
	n2 := zzvsym.IntRange("after", 0, 4)
	for i := 0; i < n2; i++ {
		c2.set(ctx, fmt.Sprintf("n%d", i), i)
	}
	// a late fresh attach
	c3 := vAttachPeer(ctx, be, project, "c3", docKey)
	zzvsym.Reach("late-attach")
	zzvsym.Assert(!c1.failed && !c2.failed && !c3.failed, "no-sync-failed")
	zzvsym.Assert(c3.doc.Marshal() == c2.doc.Marshal(), "late-attach-receives-everything")
	c3.set(ctx, "z", 1)
	c2.pushPull(ctx, document.StatusAttached, true)
	zzvsym.Assert(c3.doc.Marshal() == c2.doc.Marshal(), "clients-converge-after-late-attach")
	zzvsym.Observe(c2.doc.Marshal())
}
