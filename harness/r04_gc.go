//go:build verif

//verif:pkg pkg/document

package document

import (
	"github.com/yorkie-team/yorkie/api/converter"
	"github.com/yorkie-team/yorkie/internal/zzvsym"
)

// vRebuildable: a collected document can still be rebuilt -- as a snapshot
// (what joins, server snapshots and BuildInternalDocForServerSeq do) and as a
// deep copy (what Document.ensureClone does after a rejected update) -- and
// the rebuilt copy shows the same content. Purging must leave no reference to
// a purged node behind.
func vRebuildable(d *InternalDocument, tag string) {
	bytes, err := converter.SnapshotToBytes(d.RootObject(), d.AllPresences())
	zzvsym.Assert(err == nil, tag+"-snapshot-encode-no-error")
	if err == nil {
		obj, _, err := converter.BytesToSnapshot(bytes)
		zzvsym.Assert(err == nil, tag+"-snapshot-decode-no-error")
		if err == nil {
			zzvsym.Assert(obj.Marshal() == d.Marshal(), tag+"-snapshot-reproduces-content")
		}
	}
	cp, err := d.Root().DeepCopy()
	zzvsym.Assert(err == nil, tag+"-deep-copy-no-error")
	if err == nil {
		zzvsym.Assert(cp.Object().Marshal() == d.Marshal(), tag+"-deep-copy-reproduces-content")
	}
}

// vTwin is one universe of the twin run: the same script is executed with
// garbage collection enabled and disabled.
type vTwin struct {
	s    *vSrv
	a, b *Document
}

func vNewTwin(suffix string, disableGC bool) *vTwin {
	t := &vTwin{s: vNewSrv()}
	if disableGC {
		t.a, t.b = vReplica("actA"+suffix, WithDisableGC()), vReplica("actB"+suffix, WithDisableGC())
		t.s.disableGC = true
	} else {
		t.a, t.b = vReplica("actA"+suffix), vReplica("actB"+suffix)
	}
	return t
}

// VerifR4GCTwin: every history run with garbage collection ends in the same
// content as the same history without it, and no sync fails -- in particular
// when a client holds an unsent change while its peer syncs repeatedly.
func VerifR4GCTwin() {
	g := vNewTwin("", false) // GC on
	n := vNewTwin("N", true) // GC off (document.WithDisableGC, no response vector)
	// (the universes never exchange changes; their actor ids are independent
	// symbols, but ordered alike, so that concurrent writes have the same
	// last-writer in both)
	zzvsym.Assume((g.a.ActorID().Compare(g.b.ActorID()) < 0) == (n.a.ActorID().Compare(n.b.ActorID()) < 0))
	typ := zzvsym.IntRange("type", 0, vNumTypes-1)
	vSmallAlphabet = true
	for _, t := range []*vTwin{g, n} {
		vBase(t.a, typ)
		t.s.sync(0, t.a)
		t.s.sync(1, t.b)
		t.s.sync(0, t.a)
	}
	both := func(f func(t *vTwin)) {
		f(g)
		f(n)
	}
	edit := func(name string, who int, val int) {
		d := g.a
		if who == 1 {
			d = g.b
		}
		op := vEdit(d, name, typ, val)
		// the same edit on the GC-free twin must be accepted as well
		dn := n.a
		if who == 1 {
			dn = n.b
		}
		err, panicked := vApply(dn, op)
		zzvsym.Assert(!panicked && err == nil, "twin-accepts-same-edit")
	}
	rounds := 2
	for r := 0; r < rounds; r++ {
		// A edits and may push; B syncs 0..2 times (the second sync is the one
		// whose response vector lets B purge what A deleted); B may edit
		// concurrently; A holds its next edit unsent meanwhile.
		edit(vName("a", r), 0, 10+r)
		if zzvsym.IntRange(vName("pushA", r), 0, 1) == 1 {
			both(func(t *vTwin) { t.s.sync(0, t.a) })
		}
		k := zzvsym.IntRange(vName("syncsB", r), 0, 2)
		for i := 0; i < k; i++ {
			both(func(t *vTwin) { t.s.sync(1, t.b) })
		}
		// the peer edits concurrently: always for objects (small alphabet),
		// for the other types in the thorough tier
		if (zzvsym.Tier() > 0 || typ == vTObject) && zzvsym.IntRange(vName("editB", r), 0, 1) == 1 {
			edit(vName("b", r), 1, 20+r)
			both(func(t *vTwin) { t.s.sync(1, t.b) })
		}
	}
	both(func(t *vTwin) {
		t.s.sync(0, t.a)
		t.s.sync(1, t.b)
		t.s.sync(0, t.a)
		t.s.sync(1, t.b)
	})
	zzvsym.Reach("quiescent")
	vConverged("gc-on", g.a, g.b)
	vConverged("gc-off", n.a, n.b)
	zzvsym.Assert(g.a.Marshal() == n.a.Marshal(), "gc-on-equals-gc-off")
	// server rebuild with GC before snapshot equals the clients
	sd := g.s.vServerDoc(nil, 0, len(g.s.log), true)
	zzvsym.Assert(sd.Marshal() == g.a.Marshal(), "server-gc-rebuild-equals-clients")
	vRebuildable(g.a.InternalDocument(), "collected-A")
	vRebuildable(g.b.InternalDocument(), "collected-B")
	vRebuildable(sd, "collected-server")
	zzvsym.Observe(g.a.Marshal(), g.a.GarbageLen() <= n.a.GarbageLen())
}
