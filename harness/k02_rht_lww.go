//go:build verif

//verif:pkg pkg/document/crdt

package crdt

import (
	"fmt"

	"github.com/yorkie-team/yorkie/internal/zzvsym"
	"github.com/yorkie-team/yorkie/pkg/document/time"
)

func vTk(n string) *time.Ticket {
	l := zzvsym.Int64(n + "_l")
	zzvsym.Assume(l >= 0)
	return time.NewTicket(l, zzvsym.Uint32(n+"_d"), time.ActorID(zzvsym.Actor(n+"_a")))
}

func vDistinctTickets(ts ...*time.Ticket) {
	for i := range ts {
		for j := i + 1; j < len(ts); j++ {
			zzvsym.Assume(ts[i].Compare(ts[j]) != 0)
		}
	}
}

func vRHTApply(r *RHT, kind int, key, v string, t *time.Ticket) {
	if kind == 0 {
		r.Set(key, v, t)
	} else {
		r.Remove(key, t)
	}
}

func vRHTSame(x, y *RHT, tag string) {
	for _, k := range []string{"k1", "k2"} {
		zzvsym.Assert(x.Has(k) == y.Has(k), tag+"-has")
		zzvsym.Assert(x.Get(k) == y.Get(k), tag+"-get")
	}
	zzvsym.Assert(x.Len() == y.Len(), tag+"-len")
	zzvsym.Assert(x.Marshal() == y.Marshal(), tag+"-marshal")
}

// VerifK2RHTCommute: attribute tables (RHT: text/tree attributes) are
// last-writer-wins registers: any two / three operations with pairwise
// distinct tickets give the same observable state in every order.
func VerifK2RHTCommute() {
	n := 2 + zzvsym.Tier() // quick: 2 concurrent ops, thorough: 3
	pre := zzvsym.IntRange("pre", 0, 2) // none / set / remove applied first on both
	kinds := make([]int, n)
	keys := make([]string, n)
	ts := make([]*time.Ticket, n)
	for i := 0; i < n; i++ {
		kinds[i] = zzvsym.IntRange(fmt.Sprintf("kind%d", i), 0, 1)
		keys[i] = []string{"k1", "k2"}[zzvsym.IntRange(fmt.Sprintf("key%d", i), 0, 1)]
		ts[i] = vTk(fmt.Sprintf("op%d", i))
	}
	t0 := vTk("t0")
	vDistinctTickets(append([]*time.Ticket{t0}, ts...)...)
	perms := [][]int{{0, 1}, {1, 0}}
	if n == 3 {
		perms = [][]int{{0, 1, 2}, {0, 2, 1}, {1, 0, 2}, {1, 2, 0}, {2, 0, 1}, {2, 1, 0}}
	}
	var first *RHT
	for pi, p := range perms {
		r := NewRHT()
		if pre > 0 {
			vRHTApply(r, pre-1, "k1", "p", t0)
		}
		for _, i := range p {
			vRHTApply(r, kinds[i], keys[i], fmt.Sprintf("v%d", i), ts[i])
		}
		if pi == 0 {
			first = r
			zzvsym.Observe(r.Has("k1"), r.Get("k1"), r.Len())
			continue
		}
		vRHTSame(first, r, "order")
	}
	zzvsym.Reach("compared")
	// LWW: the visible value of a key is the one written by the greatest ticket
	for _, k := range []string{"k1", "k2"} {
		var win *time.Ticket
		winKind, winVal := -1, ""
		if pre > 0 && k == "k1" {
			win, winKind, winVal = t0, pre-1, "p"
		}
		for i := 0; i < n; i++ {
			if keys[i] == k && (win == nil || ts[i].After(win)) {
				win, winKind, winVal = ts[i], kinds[i], fmt.Sprintf("v%d", i)
			}
		}
		zzvsym.Assert(first.Has(k) == (winKind == 0), "lww-has")
		if winKind == 0 {
			zzvsym.Assert(first.Get(k) == winVal, "lww-value")
		}
	}
	// DeepCopy keeps the observable state
	vRHTSame(first, first.DeepCopy(), "deepcopy")
}

// VerifK3ElementRHTCommute: object members (ElementRHT) converge: a Set
// that creates an element and two further operations on the same key -- Sets
// (concurrent with everything, any ticket order) or deletions of that
// element by identity (causally after it) -- leave the same visible member
// in every delivery order that respects causality.
func VerifK3ElementRHTCommute() {
	t0, t1, t2 := vTk("t0"), vTk("t1"), vTk("t2")
	vDistinctTickets(t0, t1, t2)
	k1 := zzvsym.IntRange("kind1", 0, 1) // 0 set, 1 delete the element created by op 0
	k2 := zzvsym.IntRange("kind2", 0, 1)
	// causality: a deletion was made after seeing the element it deletes
	if k1 == 1 {
		zzvsym.Assume(t1.After(t0))
	}
	if k2 == 1 {
		zzvsym.Assume(t2.After(t0))
	}
	kinds := []int{0, k1, k2}
	ts := []*time.Ticket{t0, t1, t2}
	vals := []string{"p", "a", "b"}
	apply := func(r *ElementRHT, i int) {
		if kinds[i] == 0 {
			p, _ := NewPrimitive(vals[i], ts[i])
			r.SetWithExecutedAt("k", p, ts[i])
			return
		}
		if _, err := r.DeleteByCreatedAt(t0, ts[i]); err != nil {
			zzvsym.Assert(false, "delete-by-identity-no-error")
		}
	}
	var first *ElementRHT
	for _, perm := range [][]int{{0, 1, 2}, {0, 2, 1}, {1, 0, 2}, {2, 0, 1}, {1, 2, 0}, {2, 1, 0}} {
		// every deletion is delivered after the creation it names
		pos0 := 0
		for i, p := range perm {
			if p == 0 {
				pos0 = i
			}
		}
		ok := true
		for i, p := range perm {
			if kinds[p] == 1 && i < pos0 {
				ok = false
			}
		}
		if !ok {
			continue
		}
		r := NewElementRHT()
		for _, p := range perm {
			apply(r, p)
		}
		// (Whether a losing element is tombstoned or merely unreachable is
		// internal state: on the pinned tree an older Set that arrives after
		// the key's element was deleted stays un-tombstoned. C01 speaks about
		// visible content only, so this is not asserted.)
		if first == nil {
			first = r
			continue
		}
		zzvsym.Assert(first.Has("k") == r.Has("k"), "has-converges")
		zzvsym.Assert(first.Marshal() == r.Marshal(), "marshal-converges")
	}
	zzvsym.Reach("applied")
	cx, err := first.DeepCopy()
	zzvsym.Assert(err == nil, "deepcopy-no-error")
	if err == nil {
		zzvsym.Assert(cx.Marshal() == first.Marshal(), "deepcopy-marshal")
	}
	zzvsym.Observe(first.Has("k"), first.Marshal())
}

// VerifK4CounterCommute: counter increases commute, wrap like the 32/64-bit
// Go integers and equal the reference arithmetic.
func VerifK4CounterCommute() {
	ct := zzvsym.IntRange("ctype", 0, 1) // IntegerCnt / LongCnt
	tk := time.InitialTicket
	var initV interface{}
	var init32 int32
	var init64 int64
	if ct == 0 {
		init32 = zzvsym.Int32("init32")
		initV = init32
	} else {
		init64 = zzvsym.Int64("init64")
		initV = init64
	}
	mkDelta := func(n string) (*Primitive, int64) {
		switch zzvsym.IntRange(n+"_t", 0, 2) {
		case 0:
			v := zzvsym.Int32(n + "_i32")
			p, _ := NewPrimitive(v, tk)
			return p, int64(v)
		case 1:
			v := zzvsym.Int64(n + "_i64")
			p, _ := NewPrimitive(v, tk)
			return p, v
		default:
			v := zzvsym.Int(n + "_int")
			p, _ := NewPrimitive(v, tk)
			return p, int64(v)
		}
	}
	d1, r1 := mkDelta("d1")
	d2, r2 := mkDelta("d2")
	x, err := NewCounter(CounterType(ct), initV, tk)
	zzvsym.Assert(err == nil, "new-counter-no-error")
	y, _ := NewCounter(CounterType(ct), initV, tk)
	_, e1 := x.Increase(d1)
	_, e2 := x.Increase(d2)
	y.Increase(d2)
	y.Increase(d1)
	zzvsym.Reach("increased")
	zzvsym.Assert(e1 == nil, "increase-no-error")
	zzvsym.Assert(e2 == nil, "increase-no-error-2")
	zzvsym.Assert(x.Marshal() == y.Marshal(), "increase-commutes")
	if ct == 0 {
		want := init32 + int32(r1) + int32(r2)
		zzvsym.Assert(x.Value().(int32) == want, "int32-wraparound-reference")
	} else {
		want := init64 + r1 + r2
		zzvsym.Assert(x.Value().(int64) == want, "int64-wraparound-reference")
	}
	bs, err := x.Bytes()
	zzvsym.Assert(err == nil, "bytes-no-error")
	back, err := CounterValueFromBytes(CounterType(ct), bs)
	zzvsym.Assert(err == nil, "from-bytes-no-error")
	z, err := NewCounter(CounterType(ct), back, tk)
	zzvsym.Assert(err == nil, "rebuild-no-error")
	zzvsym.Assert(z.Marshal() == x.Marshal(), "bytes-roundtrip")
	zzvsym.Observe(x.Marshal())
}
