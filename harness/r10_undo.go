//go:build verif

//verif:pkg pkg/document

package document

import (
	"github.com/yorkie-team/yorkie/internal/zzvsym"
	"github.com/yorkie-team/yorkie/pkg/document/change"
	"github.com/yorkie-team/yorkie/pkg/document/json"
	"github.com/yorkie-team/yorkie/pkg/document/operations"
	"github.com/yorkie-team/yorkie/pkg/document/presence"
)

// vRestoresIdentity reports whether one of the changes carries a Set whose
// value keeps an older identity than the operation itself: an undo/redo that
// restores an object member under its original createdAt. Upstream records
// that peers' GC registries go stale on exactly these operations
// (docs/tasks/active/20260816-remote-redo-replica-divergence-todo.md).
func vRestoresIdentity(cs []*change.Change) bool {
	for _, c := range cs {
		for _, op := range c.Operations() {
			if set, ok := op.(*operations.Set); ok {
				if set.Value().CreatedAt().Compare(set.ExecutedAt()) != 0 {
					return true
				}
			}
		}
	}
	return false
}

// vContent is the user-visible content used by the undo properties: text is
// compared as characters and trees as XML (not as internal chunking).
func vContent(d *Document, typ int) string {
	switch typ {
	case vTText:
		return d.Root().GetText("txt").String()
	case vTTree:
		return d.Root().GetTree("tree").ToXML()
	}
	return d.Marshal()
}

// vExactUndo reports whether op belongs to the content alphabet of C14 whose
// undo restores the previous content exactly (styles, array move and
// set-by-index are only required not to fail).
func vExactUndo(op vOp) bool {
	switch op.typ {
	case vTArray:
		return op.k == 0 || op.k == 1 || op.k == 4
	case vTText:
		return op.k == 0 || op.k == 1
	case vTTree:
		return op.k != 4
	}
	return true
}

// VerifR10UndoLocal: on a replica without concurrent remote changes, undo
// brings back exactly the content before the edit and redo the content after
// it, to any depth; undo/redo of any kind never fails and keeps clone==root.
func VerifR10UndoLocal() {
	a := vReplica("actA")
	zzvsym.DistinctActors("actA")
	typ := zzvsym.IntRange("type", 0, vNumTypes-1)
	vBase(a, typ)
	zzvsym.Assert(a.ClearHistory() == nil, "clear-history-no-error") // the walk starts at the base content
	vSkew(a, "skewA")
	nEdits := zzvsym.IntRange("nedits", 1, 2+zzvsym.Tier())
	vSmallAlphabet = nEdits > 1
	contents := []string{vContent(a, typ)}
	exact := true
	for i := 0; i < nEdits; i++ {
		before := a.UndoStackLenForTest()
		op := vEdit(a, vName("e", i), typ, 10+i)
		if !vExactUndo(op) {
			exact = false
		}
		contents = append(contents, vContent(a, typ))
		if vExactUndo(op) && contents[i+1] != contents[i] {
			zzvsym.Assert(a.UndoStackLenForTest() == before+1, "content-edit-pushes-one-undo-entry")
		}
		// an edit that changes nothing visible (deleting an absent key) may
		// push no entry: such programs are outside the exact-restore walk
		if a.UndoStackLenForTest() != before+1 {
			exact = false
		}
		zzvsym.Assert(!a.CanRedo(), "edit-clears-redo")
	}
	// a well-nested undo/redo walk: pos is the index into contents
	pos := nEdits
	steps := zzvsym.IntRange("steps", 1, 4)
	for sidx := 0; sidx < steps; sidx++ {
		undo := zzvsym.IntRange(vName("undo", sidx), 0, 1) == 1
		// well-nested walks only: a call on an empty stack is a no-op and
		// is checked once, as the first step of a walk
		if sidx > 0 {
			if undo {
				zzvsym.Assume(a.CanUndo())
			} else {
				zzvsym.Assume(a.CanRedo())
			}
		}
		if undo {
			if pos == 0 {
				zzvsym.Assert(!a.CanUndo() || !exact, "undo-stack-empty-at-origin")
			}
			can := a.CanUndo()
			err := a.Undo()
			zzvsym.Assert(err == nil, "undo-no-error")
			if can && pos > 0 {
				pos--
			}
		} else {
			can := a.CanRedo()
			err := a.Redo()
			zzvsym.Assert(err == nil, "redo-no-error")
			if can && pos < nEdits {
				pos++
			}
		}
		vCheckClone(a, "after-undo-redo")
		if exact {
			zzvsym.Assert(vContent(a, typ) == contents[pos], "undo-redo-restores-recorded-content")
		}
	}
	zzvsym.Reach("walked")
	// the result still syncs and a fresh peer converges to it
	s := vNewSrv()
	b := vReplica("actB")
	s.sync(0, a)
	s.sync(1, b)
	s.sync(0, a)
	vConverged("final", a, b)
	zzvsym.Observe(vContent(a, typ))
}

// VerifR11UndoSync: undo and redo changes propagate like ordinary edits:
// after all clients have synced every replica shows the same content, also
// after garbage collection on the peers.
func VerifR11UndoSync() {
	a, b := vReplica("actA"), vReplica("actB")
	zzvsym.DistinctActors("actA", "actB")
	s := vNewSrv()
	typ := zzvsym.IntRange("type", 0, vNumTypes-1)
	vSmallAlphabet = true
	vBase(a, typ)
	s.sync(0, a)
	s.sync(1, b)
	s.sync(0, a)
	vSkew(a, "skewA")
	vSkew(b, "skewB")
	maybeSync := func(name string) {
		switch zzvsym.IntRange(name, 0, 2) {
		case 1:
			s.sync(0, a)
		case 2:
			s.sync(0, a)
			s.sync(1, b)
			s.sync(1, b)
		}
	}
	vEdit(a, "a0", typ, 10)
	maybeSync("sync0")
	if zzvsym.IntRange("bEdits", 0, 1) == 1 {
		vEdit(b, "b0", typ, 20)
		if zzvsym.IntRange("syncB", 0, 1) == 1 {
			s.sync(1, b)
		}
	}
	nur := zzvsym.IntRange("nur", 1, 2)
	for i := 0; i < nur; i++ {
		if i == 0 || zzvsym.IntRange(vName("kind", i), 0, 1) == 0 {
			zzvsym.Assert(a.Undo() == nil, "undo-no-error")
		} else {
			zzvsym.Assert(a.Redo() == nil, "redo-no-error")
		}
		vCheckClone(a, "after-undo-redo")
		maybeSync(vName("syncU", i))
	}
	s.sync(0, a)
	s.sync(1, b)
	s.sync(0, a)
	s.sync(1, b)
	s.sync(0, a)
	zzvsym.Reach("quiescent")
	if vRestoresIdentity(s.log) {
		vConverged("final-after-identity-restoring-set", a, b)
	} else {
		vConverged("final", a, b)
	}
	zzvsym.Observe(a.Marshal())
}

// VerifR10UndoNonBMP: undo/redo of edits that remove characters outside the
// Basic Multilingual Plane (one rune, two UTF-16 units). The reverse
// operations carry restore spans measured in UTF-16 units; every change is
// passed through the real wire converters to a peer.
func VerifR10UndoNonBMP() {
	a, b := vReplica("actA"), vReplica("actB")
	s := vNewSrv()
	kind := zzvsym.IntRange("container", 0, 1) // 0 text, 1 tree
	err := a.Update(func(root *json.Object, p *presence.Presence) error {
		if kind == 0 {
			root.SetNewText("txt").Edit(0, 0, "a\U0001F600b")
		} else {
			root.SetNewTree("tree", json.TreeNode{Type: "r", Children: []json.TreeNode{
				{Type: "p", Children: []json.TreeNode{{Type: "text", Value: "a\U0001F600b"}}},
			}})
		}
		return nil
	})
	zzvsym.Assert(err == nil, "base-update-no-error")
	zzvsym.Assert(a.ClearHistory() == nil, "clear-history-no-error")
	s.sync(0, a)
	s.sync(1, b)
	content := func(d *Document) string {
		if kind == 0 {
			return d.Root().GetText("txt").String()
		}
		return d.Root().GetTree("tree").ToXML()
	}
	c0 := content(a)
	// the edit: UTF-16 indices; the astral character occupies [1,3) (text) / [2,4) (tree)
	off := kind // tree indices are shifted by the opening tag
	from, to := 1+off, 3+off
	switch zzvsym.IntRange("edit", 0, 2) {
	case 1:
		from, to = 0+off, 4+off // everything
	case 2:
		from, to = 0+off, 3+off // prefix including the astral character
	}
	replace := zzvsym.IntRange("replace", 0, 1) == 1
	err = a.Update(func(root *json.Object, p *presence.Presence) error {
		if kind == 0 {
			if replace {
				root.GetText("txt").Edit(from, to, "Z")
			} else {
				root.GetText("txt").Edit(from, to, "")
			}
		} else {
			if replace {
				root.GetTree("tree").Edit(from, to, &json.TreeNode{Type: "text", Value: "Z"}, 0)
			} else {
				root.GetTree("tree").Edit(from, to, nil, 0)
			}
		}
		return nil
	})
	zzvsym.Assert(err == nil, "edit-no-error")
	c1 := content(a)
	s.sync(0, a)
	s.sync(1, b)
	zzvsym.Assert(content(b) == c1, "peer-sees-edit")
	zzvsym.Assert(a.Undo() == nil, "undo-no-error")
	zzvsym.Assert(content(a) == c0, "undo-restores-astral-content")
	vCheckClone(a, "after-undo")
	s.sync(0, a)
	s.sync(1, b)
	zzvsym.Assert(content(b) == c0, "peer-sees-undo")
	if zzvsym.IntRange("redo", 0, 1) == 1 {
		zzvsym.Assert(a.Redo() == nil, "redo-no-error")
		zzvsym.Assert(content(a) == c1, "redo-restores-edit")
		s.sync(0, a)
		s.sync(1, b)
		zzvsym.Assert(content(b) == c1, "peer-sees-redo")
	}
	zzvsym.Reach("walked")
	vConverged("final", a, b)
	zzvsym.Observe(content(a))
}
