//go:build verif

//verif:pkg pkg/document

package document

import (
	"strings"

	"github.com/yorkie-team/yorkie/internal/zzvsym"
	"github.com/yorkie-team/yorkie/pkg/document/json"
	"github.com/yorkie-team/yorkie/pkg/document/presence"
)

// The reference model of a flat tree <r><p ..>text</p>...</r>: the list of
// its tokens (opening tag, character, closing tag) without the root tags.
// Index i lies between token i-1 and token i.

func vTokOpen(t string) bool  { return len(t) >= 2 && t[0] == '<' && t[1] != '/' }
func vTokClose(t string) bool { return len(t) >= 2 && t[0] == '<' && t[1] == '/' }

// vModelPath converts an index of the flat model into a path.
func vModelPath(toks []string, idx int) []int {
	para, off, inside := -1, 0, false
	for k := 0; k < idx && k < len(toks); k++ {
		switch {
		case vTokOpen(toks[k]):
			para++
			inside, off = true, 0
		case vTokClose(toks[k]):
			inside = false
		default:
			off++
		}
	}
	if inside {
		return []int{para, off}
	}
	return []int{para + 1}
}

func vTokInsert(toks []string, at int, ins ...string) []string {
	out := append([]string{}, toks[:at]...)
	out = append(out, ins...)
	return append(out, toks[at:]...)
}

func vTokRemove(toks []string, from, to int) []string {
	out := append([]string{}, toks[:from]...)
	return append(out, toks[to:]...)
}

// vTreeModelApply performs op on the token model.
func vTreeModelApply(toks []string, op vOp) []string {
	switch op.k {
	case 0:
		return vTokInsert(toks, op.i, string(rune('A'+op.val%26)))
	case 1:
		return vTokRemove(toks, op.i, op.i+1)
	case 2:
		return vTokInsert(toks, op.i, "<p>", string(rune('a'+op.val%26)), "</p>")
	case 3:
		return vTokRemove(toks, op.i, op.j)
	case 4:
		out := append([]string{}, toks...)
		out[0] = `<p b="` + string(rune('0'+op.val%10)) + `">`
		return out
	case 5:
		out := append([]string{}, toks...)
		out[0] = "<p>"
		return out
	}
	return toks
}

// vApplyTreeByPath performs the edit through the path-based API, with the
// paths computed from the model.
func vApplyTreeByPath(d *Document, toks []string, op vOp) (err error, panicked bool) {
	panicked = zzvsym.Fails(func() {
		err = d.Update(func(root *json.Object, p *presence.Presence) error {
			tr := root.GetTree("tree")
			switch op.k {
			case 0:
				pa := vModelPath(toks, op.i)
				tr.EditByPath(pa, pa, &json.TreeNode{Type: "text", Value: string(rune('A' + op.val%26))}, 0)
			case 1:
				tr.EditByPath(vModelPath(toks, op.i), vModelPath(toks, op.i+1), nil, 0)
			case 2:
				pa := vModelPath(toks, op.i)
				tr.EditByPath(pa, pa, &json.TreeNode{Type: "p", Children: []json.TreeNode{{Type: "text", Value: string(rune('a' + op.val%26))}}}, 0)
			case 3:
				tr.EditByPath(vModelPath(toks, op.i), vModelPath(toks, op.j), nil, 0)
			}
			return nil
		})
	})
	return err, panicked
}

// VerifR7TreeModel: on one replica tree edits by index and by path change
// the XML exactly as the token model says -- also when remote changes,
// garbage collection and rebuilds left tombstones and split text nodes in
// front of, inside and behind the addressed position -- and Len agrees.
func VerifR7TreeModel() {
	a, b := vReplica("actA"), vReplica("actB")
	s := vNewSrv()
	vBase(a, vTTree)
	s.sync(0, a)
	s.sync(1, b)
	s.sync(0, a)
	toks := vXMLTokens(a.Root().GetTree("tree").ToXML())
	check := func(tag string) {
		tr := a.Root().GetTree("tree")
		zzvsym.Assert(tr.ToXML() == "<r>"+strings.Join(toks, "")+"</r>", tag+"-tree-equals-token-model")
		zzvsym.Assert(tr.Len() == len(toks), tag+"-tree-len-equals-token-count")
		vCheckClone(a, tag)
	}
	check("base")
	n := 3 + zzvsym.Tier()
	byPath := zzvsym.IntRange("byPath", 0, 1) == 1 // the whole program uses one API flavour
	for i := 0; i < n; i++ {
		d := a
		if i == 0 && zzvsym.IntRange("firstBy", 0, 1) == 1 {
			d = b // its tombstones reach A by a remote change
		}
		op := vPick(d, vName("e", i), vTTree, 10+i)
		var err error
		var panicked bool
		if op.k <= 3 && byPath {
			err, panicked = vApplyTreeByPath(d, toks, op)
		} else {
			err, panicked = vApply(d, op)
		}
		zzvsym.Assert(!panicked && err == nil, "tree-edit-accepted")
		toks = vTreeModelApply(toks, op)
		if d == b {
			s.sync(1, b)
			s.sync(0, a)
		}
		check(vName("step", i))
	}
	switch zzvsym.IntRange("then", 0, 2) {
	case 1:
		s.sync(0, a)
		s.sync(1, b)
		s.sync(0, a)
		check("aftergc")
	case 2:
		_ = a.Update(func(root *json.Object, p *presence.Presence) error { return errRebuild })
		check("afterrebuild")
	}
	// one more edit at the very front of the first paragraph, where purged or
	// rebuilt structures are addressed again
	if len(toks) > 0 && vTokOpen(toks[0]) {
		op := vOp{typ: vTTree, k: 0, i: 1, val: 23}
		err, panicked := vApply(a, op)
		zzvsym.Assert(!panicked && err == nil, "front-edit-accepted")
		toks = vTreeModelApply(toks, op)
		check("front")
	}
	zzvsym.Reach("model-compared")
	zzvsym.Observe(a.Marshal())
}
