//go:build verif

//verif:pkg server/backend/database/memory

package memory

import (
	"context"
	"errors"
	"fmt"
	gotime "time"

	"github.com/yorkie-team/yorkie/api/types"
	"github.com/yorkie-team/yorkie/internal/zzvsym"
	"github.com/yorkie-team/yorkie/pkg/document/change"
	"github.com/yorkie-team/yorkie/pkg/document/time"
	"github.com/yorkie-team/yorkie/pkg/key"
	"github.com/yorkie-team/yorkie/server/backend/database"
)

const (
	vProj   = types.ID("aaaaaaaaaaaaaaaaaaaaaaaa")
	vDoc    = types.ID("d00000000000000000000001")
	vSelf   = types.ID("000000000000000000000001")
	vPeer1  = types.ID("000000000000000000000002")
	vPeer2  = types.ID("000000000000000000000003")
)

func vMustInsert(d *DB, table string, obj interface{}) {
	zzvsym.Assert(d.VerifInsert(table, obj) == nil, "seed-insert-no-error")
}

func vUni(n int) []time.ActorID {
	names := make([]string, n)
	out := make([]time.ActorID, n)
	for i := range names {
		names[i] = fmt.Sprintf("act%d", i)
		out[i] = time.ActorID(zzvsym.Actor(names[i]))
	}
	zzvsym.DistinctActors(names...)
	return out
}

func vVec(name string, uni []time.ActorID) time.VersionVector {
	vv := time.NewVersionVector()
	for i, a := range uni {
		if zzvsym.Bool(fmt.Sprintf("%s_has%d", name, i)) {
			v := zzvsym.Int64(fmt.Sprintf("%s_v%d", name, i))
			zzvsym.Assume(v >= 0)
			zzvsym.Assume(v < 1<<62)
			vv[a] = v
		}
	}
	return vv
}

// VerifK17MinVVRows: the minimum version vector the server hands out is, for
// every actor, no greater than what each attached client's stored row and
// the requester's own vector say (absent = 0); a client that is no longer
// attached loses its row and stops holding back garbage collection.
func VerifK17MinVVRows() {
	d, err := New()
	zzvsym.Assert(err == nil, "new-db")
	ctx := context.Background()
	uni := vUni(2)
	ref := types.DocRefKey{ProjectID: vProj, DocID: vDoc}
	npeers := zzvsym.IntRange("npeers", 0, 2)
	var rows []time.VersionVector
	for i, id := range []types.ID{vPeer1, vPeer2}[:npeers] {
		vv := vVec(fmt.Sprintf("p%d", i), uni)
		rows = append(rows, vv)
		vMustInsert(d, tblVersionVectors, &database.VersionVectorInfo{ID: types.ID(fmt.Sprintf("%024d", i+1)), ProjectID: vProj, DocID: vDoc, ClientID: id, VersionVector: vv})
	}
	hadRow := zzvsym.IntRange("selfHadRow", 0, 1) == 1
	if hadRow {
		vMustInsert(d, tblVersionVectors, &database.VersionVectorInfo{ID: types.ID(fmt.Sprintf("%024d", 9)), ProjectID: vProj, DocID: vDoc, ClientID: vSelf, VersionVector: vVec("old", uni)})
	}
	status := []string{database.DocumentAttached, database.DocumentDetached, database.DocumentRemoved}[zzvsym.IntRange("status", 0, 2)]
	ci := &database.ClientInfo{ID: vSelf, ProjectID: vProj, Status: database.ClientActivated,
		Documents: database.ClientDocInfoMap{vDoc: {Status: status}}}
	req := vVec("req", uni)
	min, err := d.UpdateMinVersionVector(ctx, ci, ref, req)
	zzvsym.Reach("min-computed")
	zzvsym.Assert(err == nil, "update-min-vv-no-error")
	for _, a := range uni {
		zzvsym.Assert(min.VersionOf(a) <= req.VersionOf(a), "min-never-exceeds-requester")
		for _, r := range rows {
			zzvsym.Assert(min.VersionOf(a) <= r.VersionOf(a), "min-never-exceeds-an-attached-clients-row")
		}
	}
	// the requester's row
	var selfRow *database.VersionVectorInfo
	n := 0
	for _, r := range d.VerifVersionVectors(string(vDoc)) {
		if r.ClientID == vSelf {
			selfRow = r
			n++
		}
	}
	if status == database.DocumentAttached {
		zzvsym.Assert(n == 1, "attached-client-has-exactly-one-row")
		if selfRow != nil {
			for _, a := range uni {
				zzvsym.Assert(selfRow.VersionVector.VersionOf(a) == req.VersionOf(a), "row-holds-the-request-time-vector")
			}
		}
	} else {
		zzvsym.Assert(n == 0, "detached-or-removed-client-has-no-row")
	}
	zzvsym.Assert(len(d.VerifVersionVectors(string(vDoc))) == npeers+n, "other-rows-untouched")
	zzvsym.Observe(len(min))
}

// VerifK27Compact: CompactChangeInfos is a compare-and-set on the log head;
// on success the epoch strictly increases, the log is exactly the given 0/1
// change at sequence 1, version-vector rows are purged; on conflict nothing
// changes at all.
func VerifK27Compact() {
	d, err := New()
	zzvsym.Assert(err == nil, "new-db")
	ctx := context.Background()
	head := zzvsym.Int64("head")
	epoch := zzvsym.Int64("epoch")
	tail := zzvsym.IntRange("logTail", 0, 2) // stored rows head-tail+1..head (head may be as small as the tail)
	zzvsym.Assume(head >= int64(tail))
	zzvsym.Assume(head < 1<<40)
	zzvsym.Assume(epoch >= 0)
	zzvsym.Assume(epoch < 1<<40)
	doc := &database.DocInfo{ID: vDoc, ProjectID: vProj, Key: "k", ServerSeq: head, Epoch: epoch}
	vMustInsert(d, tblDocuments, doc)
	for i := int64(0); i < int64(tail); i++ {
		vMustInsert(d, tblChanges, &database.ChangeInfo{ID: types.ID(fmt.Sprintf("%024d", i+1)), ProjectID: vProj, DocID: vDoc, ServerSeq: head - int64(tail) + 1 + i, ClientSeq: uint32(i + 1), ActorID: vPeer1, VersionVector: time.NewVersionVector()})
	}
	vMustInsert(d, tblVersionVectors, &database.VersionVectorInfo{ID: types.ID(fmt.Sprintf("%024d", 7)), ProjectID: vProj, DocID: vDoc, ClientID: vPeer1, VersionVector: time.NewVersionVector()})
	// another document of the same project must not be touched
	other := types.ID("d00000000000000000000002")
	vMustInsert(d, tblChanges, &database.ChangeInfo{ID: types.ID(fmt.Sprintf("%024d", 8)), ProjectID: vProj, DocID: other, ServerSeq: 1, ClientSeq: 1, ActorID: vPeer1, VersionVector: time.NewVersionVector()})
	last := zzvsym.Int64("lastServerSeq")
	nchg := zzvsym.IntRange("nchanges", 0, 2)
	var cs []*change.Change
	for i := 0; i < nchg; i++ {
		cs = append(cs, change.New(change.NewID(uint32(i+1), 0, int64(i+1), time.InitialActorID, time.NewVersionVector()), "", nil, nil))
	}
	err = d.CompactChangeInfos(ctx, doc.DeepCopy(), last, cs)
	zzvsym.Reach("compacted")
	after := d.VerifDoc(string(vDoc))
	rows := d.VerifChanges(string(vDoc))
	if last != head || nchg > 1 {
		zzvsym.Assert(err != nil, "stale-head-or-bad-size-refused")
		if last != head {
			zzvsym.Assert(errors.Is(err, database.ErrConflictOnUpdate), "stale-head-is-conflict")
		}
		zzvsym.Assert(after.Epoch == epoch && after.ServerSeq == head, "refused-compaction-keeps-document")
		zzvsym.Assert(len(rows) == tail, "refused-compaction-keeps-log")
		zzvsym.Assert(len(d.VerifVersionVectors(string(vDoc))) == 1, "refused-compaction-keeps-version-vectors")
	} else {
		zzvsym.Assert(err == nil, "compaction-no-error")
		zzvsym.Assert(after.Epoch > epoch, "epoch-strictly-increases")
		zzvsym.Assert(after.ServerSeq == int64(nchg), "log-head-is-number-of-compacted-changes")
		zzvsym.Assert(len(rows) == nchg, "log-is-exactly-the-compacted-changes")
		if nchg == 1 && len(rows) == 1 {
			zzvsym.Assert(rows[0].ServerSeq == 1, "compacted-change-has-sequence-1")
		}
		zzvsym.Assert(len(d.VerifVersionVectors(string(vDoc))) == 0, "version-vectors-purged")
	}
	zzvsym.Assert(len(d.VerifChanges(string(other))) == 1, "other-document-untouched")
	zzvsym.Observe(err == nil)
}

// VerifK29LifecycleDB: the database side of the lifecycle rules.
func VerifK29LifecycleDB() {
	d, err := New()
	zzvsym.Assert(err == nil, "new-db")
	ctx := context.Background()
	statuses := []string{"", database.DocumentAttaching, database.DocumentAttached, database.DocumentDetached, database.DocumentRemoved}
	active := zzvsym.IntRange("activated", 0, 1) == 1
	st := zzvsym.IntRange("st", 0, 4)
	st2 := zzvsym.IntRange("st2", 0, 4)
	other := types.ID("d00000000000000000000002")
	ci := &database.ClientInfo{ID: vSelf, ProjectID: vProj, Key: "c", Status: database.ClientDeactivated, Documents: database.ClientDocInfoMap{}}
	if active {
		ci.Status = database.ClientActivated
	}
	if st != 0 {
		ci.Documents[vDoc] = &database.ClientDocInfo{Status: statuses[st], ServerSeq: zzvsym.Int64("ss"), ClientSeq: zzvsym.Uint32("cs")}
	}
	if st2 != 0 {
		ci.Documents[other] = &database.ClientDocInfo{Status: statuses[st2]}
	}
	vMustInsert(d, tblClients, ci.DeepCopy())
	ref := types.ClientRefKey{ProjectID: vProj, ClientID: vSelf}
	switch zzvsym.IntRange("call", 0, 1) {
	case 0:
		got, err := d.TryAttaching(ctx, ref, vDoc)
		ok := active && st != 2
		zzvsym.Assert((err == nil) == ok, "try-attaching-needs-activated-client-and-not-attached-document")
		row := d.VerifClient(string(vSelf))
		if err == nil {
			zzvsym.Assert(got.Documents[vDoc].Status == database.DocumentAttaching, "try-attaching-returns-attaching")
			zzvsym.Assert(row.Documents[vDoc].Status == database.DocumentAttaching, "try-attaching-stores-attaching")
			zzvsym.Assert(row.Documents[vDoc].ServerSeq == 0 && row.Documents[vDoc].ClientSeq == 0, "try-attaching-zeroes-checkpoint")
		} else if st != 0 {
			zzvsym.Assert(row.Documents[vDoc].Status == statuses[st], "refused-try-attaching-changes-nothing")
		}
	case 1:
		_, err := d.DeactivateClient(ctx, ref)
		busy := st == 1 || st == 2 || st2 == 1 || st2 == 2
		zzvsym.Assert((err == nil) == (active && !busy), "deactivate-needs-no-attached-or-attaching-document")
		row := d.VerifClient(string(vSelf))
		if err == nil {
			zzvsym.Assert(row.Status == database.ClientDeactivated, "deactivate-stores-status")
		} else {
			zzvsym.Assert(row.Status == ci.Status, "refused-deactivate-changes-nothing")
		}
	}
	zzvsym.Reach("called")
}

// VerifK31Tenancy: a caller of another project can neither read nor modify a
// client or a document through the storage API even when it knows their ids:
// every project-scoped method fails with not-found and leaves the stored
// rows unchanged. Project ids are symbolic (only assumed distinct).
func VerifK31Tenancy() {
	d, err := New()
	zzvsym.Assert(err == nil, "new-db")
	ctx := context.Background()
	owner := types.ID(time.ActorID(zzvsym.Actor("projOwner")).String())
	caller := types.ID(time.ActorID(zzvsym.Actor("projCaller")).String())
	zzvsym.DistinctActors("projOwner", "projCaller")
	foreign := zzvsym.IntRange("foreign", 0, 1) == 1
	if !foreign {
		caller = owner
	}
	vMustInsert(d, tblClients, &database.ClientInfo{ID: vSelf, ProjectID: owner, Key: "c", Status: database.ClientActivated,
		Documents: database.ClientDocInfoMap{vDoc: {Status: database.DocumentDetached}}})
	vMustInsert(d, tblDocuments, &database.DocInfo{ID: vDoc, ProjectID: owner, Key: "k", ServerSeq: 3})
	cref := types.ClientRefKey{ProjectID: caller, ClientID: vSelf}
	dref := types.DocRefKey{ProjectID: caller, DocID: vDoc}
	var cerr error
	switch zzvsym.IntRange("method", 0, 5) {
	case 0:
		_, cerr = d.FindClientInfoByRefKey(ctx, cref)
	case 1:
		_, cerr = d.TryAttaching(ctx, cref, vDoc)
	case 2:
		_, cerr = d.DeactivateClient(ctx, cref)
	case 3:
		_, cerr = d.FindDocInfoByRefKey(ctx, dref)
	case 4:
		_, _, cerr = d.CreateChangeInfos(ctx, dref, change.InitialCheckpoint, []*database.ChangeInfo{{ClientSeq: 1, ActorID: vSelf, VersionVector: time.NewVersionVector()}}, false)
	case 5:
		cerr = d.UpdateDocInfoStatusToRemoved(ctx, dref)
	}
	zzvsym.Reach("called")
	if foreign {
		zzvsym.Assert(cerr != nil, "foreign-project-is-refused")
		zzvsym.Assert(errors.Is(cerr, database.ErrClientNotFound) || errors.Is(cerr, database.ErrDocumentNotFound), "foreign-project-sees-not-found")
		c := d.VerifClient(string(vSelf))
		zzvsym.Assert(c.Status == database.ClientActivated && c.Documents[vDoc].Status == database.DocumentDetached, "foreign-call-leaves-client-unchanged")
		doc := d.VerifDoc(string(vDoc))
		zzvsym.Assert(doc.ServerSeq == 3 && doc.RemovedAt.IsZero(), "foreign-call-leaves-document-unchanged")
		zzvsym.Assert(len(d.VerifChanges(string(vDoc))) == 0, "foreign-call-stores-no-change")
	} else {
		zzvsym.Assert(cerr == nil, "own-project-is-served")
	}
	zzvsym.Observe(cerr == nil)
}

// VerifK31TenancyReads: the lookups that take a project id and return lists
// or flags (no error for "nothing found") show a foreign caller nothing of
// the owner's data, although it knows the owner's document id and key; the
// owner is served.
func VerifK31TenancyReads() {
	d, err := New()
	zzvsym.Assert(err == nil, "new-db")
	ctx := context.Background()
	owner := types.ID(time.ActorID(zzvsym.Actor("projOwner")).String())
	caller := types.ID(time.ActorID(zzvsym.Actor("projCaller")).String())
	zzvsym.DistinctActors("projOwner", "projCaller")
	foreign := zzvsym.IntRange("foreign", 0, 1) == 1
	if !foreign {
		caller = owner
	}
	removed := zzvsym.IntRange("removedDoc", 0, 1) == 1
	vMustInsert(d, tblClients, &database.ClientInfo{ID: vSelf, ProjectID: owner, Key: "c", Status: database.ClientActivated,
		Documents: database.ClientDocInfoMap{vDoc: {Status: database.DocumentAttached}}})
	doc := &database.DocInfo{ID: vDoc, ProjectID: owner, Key: "k", ServerSeq: 3}
	if removed {
		doc.RemovedAt = gotime.Unix(1700000000, 0)
	}
	vMustInsert(d, tblDocuments, doc)
	found := false
	switch zzvsym.IntRange("method", 0, 4) {
	case 0:
		infos, err := d.FindDocInfosByIDs(ctx, caller, []types.ID{vDoc})
		zzvsym.Assert(err == nil, "lookup-no-error")
		found = len(infos) > 0
	case 1:
		infos, err := d.FindDocInfosByKeys(ctx, caller, []key.Key{"k"})
		zzvsym.Assert(err == nil, "lookup-no-error")
		found = len(infos) > 0
		zzvsym.Assume(!removed) // a removed document's key is free again: nothing to find for anybody
	case 2:
		info, err := d.FindDocInfoByKey(ctx, caller, "k")
		found = err == nil && info != nil
		zzvsym.Assume(!removed)
	case 3:
		attached, err := d.IsDocumentAttachedOrAttaching(ctx, types.DocRefKey{ProjectID: caller, DocID: vDoc}, "")
		zzvsym.Assert(err == nil, "lookup-no-error")
		found = attached
	case 4:
		counts, err := d.FindAttachedClientCountsByDocIDs(ctx, caller, []types.ID{vDoc})
		zzvsym.Assert(err == nil, "lookup-no-error")
		found = counts[vDoc] > 0
	}
	zzvsym.Reach("looked-up")
	if foreign {
		zzvsym.Assert(!found, "foreign-project-learns-nothing")
	} else {
		zzvsym.Assert(found, "own-project-is-served")
	}
	zzvsym.Observe(found)
}
