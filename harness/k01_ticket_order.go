//go:build verif

//verif:pkg pkg/document/time

package time

import (
	"github.com/yorkie-team/yorkie/internal/zzvsym"
)

func vTicket(n string) *Ticket {
	return NewTicket(zzvsym.Int64(n+"_l"), zzvsym.Uint32(n+"_d"), ActorID(zzvsym.Actor(n+"_a")))
}

func sgn(x int) int {
	if x > 0 {
		return 1
	}
	if x < 0 {
		return -1
	}
	return 0
}

// VerifK1TicketOrder: Ticket.Compare is a strict total order on
// (lamport, actorID, delimiter) and After agrees with it.
func VerifK1TicketOrder() {
	a, b, c := vTicket("a"), vTicket("b"), vTicket("c")
	ab, ba := sgn(a.Compare(b)), sgn(b.Compare(a))
	zzvsym.Reach("compared")
	zzvsym.Observe(ab, ba)
	zzvsym.Assert(ab == -ba, "antisymmetric")
	zzvsym.Assert(a.Compare(a) == 0, "reflexive")
	same := a.Lamport() == b.Lamport() && a.Delimiter() == b.Delimiter() && a.ActorID() == b.ActorID()
	zzvsym.Assert((ab == 0) == same, "zero-iff-equal")
	zzvsym.Assert(a.After(b) == (ab > 0), "after-iff-positive")
	bc, ac := sgn(b.Compare(c)), sgn(a.Compare(c))
	zzvsym.Observe(bc, ac)
	if ab >= 0 && bc >= 0 {
		zzvsym.Assert(ac >= 0, "transitive")
		if ab > 0 || bc > 0 {
			zzvsym.Assert(ac > 0, "transitive-strict")
		}
	}
	// precedence: lamport first, then actor, then delimiter
	if a.Lamport() > b.Lamport() {
		zzvsym.Assert(ab > 0, "lamport-dominates")
	}
	if a.Lamport() == b.Lamport() && a.ActorID().Compare(b.ActorID()) > 0 {
		zzvsym.Assert(ab > 0, "actor-second")
	}
	if a.Lamport() == b.Lamport() && a.ActorID() == b.ActorID() && a.Delimiter() > b.Delimiter() {
		zzvsym.Assert(ab > 0, "delimiter-third")
	}
	// keys identify tickets
	zzvsym.Assert((a.Key() == b.Key()) == same, "key-injective")
}
