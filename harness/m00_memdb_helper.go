//go:build verif

//verif:pkg server/backend/database/memory

package memory

import (
	"github.com/yorkie-team/yorkie/server/backend/database"
)

// Harness access to the tables of the in-memory database (pre-states are
// built through the same txn.Insert calls in both execution modes).

func (d *DB) VerifInsert(table string, obj interface{}) error {
	txn := d.db.Txn(true)
	defer txn.Abort()
	if err := txn.Insert(table, obj); err != nil {
		return err
	}
	txn.Commit()
	return nil
}

// VerifChanges returns the change rows of a document in serverSeq order.
func (d *DB) VerifChanges(docID string) []*database.ChangeInfo {
	txn := d.db.Txn(false)
	defer txn.Abort()
	it, err := txn.Get(tblChanges, "doc_id", docID)
	if err != nil {
		return nil
	}
	var out []*database.ChangeInfo
	for raw := it.Next(); raw != nil; raw = it.Next() {
		out = append(out, raw.(*database.ChangeInfo))
	}
	// order by serverSeq (insertion sort; the doc_id index orders by primary id)
	for i := 1; i < len(out); i++ {
		for j := i; j > 0 && out[j].ServerSeq < out[j-1].ServerSeq; j-- {
			out[j], out[j-1] = out[j-1], out[j]
		}
	}
	return out
}

func (d *DB) VerifDoc(docID string) *database.DocInfo {
	txn := d.db.Txn(false)
	defer txn.Abort()
	raw, _ := txn.First(tblDocuments, "id", docID)
	if raw == nil {
		return nil
	}
	return raw.(*database.DocInfo)
}

func (d *DB) VerifClient(clientID string) *database.ClientInfo {
	txn := d.db.Txn(false)
	defer txn.Abort()
	raw, _ := txn.First(tblClients, "id", clientID)
	if raw == nil {
		return nil
	}
	return raw.(*database.ClientInfo)
}

func (d *DB) VerifVersionVectors(docID string) []*database.VersionVectorInfo {
	txn := d.db.Txn(false)
	defer txn.Abort()
	it, err := txn.Get(tblVersionVectors, "doc_id", docID)
	if err != nil {
		return nil
	}
	var out []*database.VersionVectorInfo
	for raw := it.Next(); raw != nil; raw = it.Next() {
		out = append(out, raw.(*database.VersionVectorInfo))
	}
	return out
}

const (
	VerifTblDocuments      = "documents"
	VerifTblClients        = "clients"
	VerifTblChanges        = "changes"
	VerifTblVersionVectors = "versionvectors"
)
